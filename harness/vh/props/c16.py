"""C16 - generated code is deterministic and independent of the formatter's presence."""
from __future__ import annotations

import ast
import json
import subprocess as sp

from .. import driver, valgen
from ..core import PY, REPO, Ctx, clean_env, coq_eval_shards, g_N, g_bool, g_list, g_nat, g_pair, g_str, pmap, proof_step, tmap


# ----------------------------------------------------------------------------- A: sort_set_values vs Model/SortSet.v
def gen_elems(rng):
    kind = rng.choice(["int", "str", "fs", "fs", "mixed", "mixed_fs", "none_mixed"])
    n = rng.randint(0, 7)
    out = []
    if kind == "int":
        out = rng.sample(range(-6, 12), n)
    elif kind == "str":
        out = rng.sample(["a", "b", "ab", "B", "", "é", "a b", "zz"], n)
    elif kind == "fs":
        pool = [frozenset(s) for s in ([], [0], [1], [2], [0, 1], [1, 2], [0, 2], [0, 1, 2], [3])]
        out = rng.sample(pool, min(n, len(pool)))
    elif kind == "mixed":
        out = rng.sample([1, 2, 3, "a", "b"], min(n, 5))
    elif kind == "mixed_fs":
        out = rng.sample([1, 5, frozenset([0]), frozenset([1]), "x"], min(n, 5))
    else:
        out = rng.sample([None, 1, 2, "a"], min(n, 4))
    rng.shuffle(out)
    return out


def g_elt(e):
    if e is None:
        return "ENone"
    if isinstance(e, int):
        return f"(EInt {g_N(abs(e))} {g_bool(e < 0)})"
    if isinstance(e, str):
        return f"(EStr {g_str(e)})"
    return "(EFs " + g_list(sorted(e), g_nat) + ")"


def corr_sort(ctx: Ctx):
    from inline_snapshot._code_repr import sort_set_values
    cases, terms = [], []
    n = 1500 if not ctx.thorough else 15000
    for _ in range(n):
        el = gen_elems(ctx.rng)
        try:
            got = sort_set_values(list(el))
        except Exception as e:  # noqa
            ctx.report(f"sort_set_values({el!r}) raised {type(e).__name__}: {e}", {"kind": "sort", "elems": repr(el)})
            continue
        ctx.count(("sort", repr(el)), len(el) >= 3)
        ctx.dist("A.kind=" + ("empty" if not el else type(el[0]).__name__))
        cases.append((el, got))
        terms.append(g_pair(g_list(el, lambda e: g_pair(g_elt(e), g_str(repr(e)))), g_list(got, g_str)))
    bad = coq_eval_shards(ctx, "sortset", "Model.SortSet Corr.SortSetCorr", "case", terms, "mismatches")
    ctx.coverage["traces_validated_against_impl"] += len(terms)
    ctx.coverage["correspondence"]["sort_set_values"] = {"cases": len(terms), "mismatches": len(bad)}
    for j in bad[:10]:
        el, got = cases[j]
        ctx.report(f"Model/SortSet.v and implementation differ on sort_set_values({el!r}) = {got!r}", {"kind": "sort", "elems": repr(el)}, no_input=True, kind="correspondence")
    # permutation invariance on the implementation itself (independent of the model)
    import itertools
    for _ in range(300 if not ctx.thorough else 3000):
        el = gen_elems(ctx.rng)[:5]
        outs = set()
        for p in itertools.permutations(el):
            outs.add(tuple(sort_set_values(list(p))))
        ctx.count(("perm", repr(sorted(map(repr, el)))), len(el) >= 3)
        if len(outs) > 1:
            ctx.report(f"the text for the set {{{', '.join(map(repr, el))}}} depends on the element order: {sorted(outs)[:3]}", {"kind": "perm", "elems": repr(el)}, tag=classify_set(el))
    ctx.sample({"sort_set_values": {"input": repr(cases[0][0]), "output": cases[0][1]}})


def classify_set(el):
    # F-05: elements that are only partially ordered by < (frozensets) and never raise TypeError
    if el and all(isinstance(e, frozenset) for e in el):
        return "F-05"
    return None


# ----------------------------------------------------------------------------- B: hash seeds and construction orders
CHILD = r'''
import sys, json
sys.path.insert(0, __SRC__)
from inline_snapshot._code_repr import code_repr
from inline_snapshot._utils import value_to_token
from enum import Enum
from collections import namedtuple
ROW = namedtuple("ROW", "k v")
class Color(Enum):
    red = 1
    green = 2
exprs = json.load(sys.stdin)
out = []
for e in exprs:
    try:
        v = eval(e)
        # the text as code_repr gives it and as the token stream that is written into the file
        out.append(code_repr(v) + " <|> " + " ".join(t.string for t in value_to_token(v)))
    except Exception as ex:
        out.append("EXC " + type(ex).__name__)
print(json.dumps(out))
'''


def gen_set_exprs(rng, n):
    out = []
    strs = ["a", "b", "c", "dd", "e f", "x'y", "é", "", "zz", "k"]
    for _ in range(n):
        k = rng.random()
        if k < 0.25:
            el = [repr(s) for s in rng.sample(strs, rng.randint(0, 6))]
        elif k < 0.4:
            el = [repr(s) for s in rng.sample(strs, 3)] + [str(rng.randint(0, 9))]
        elif k < 0.6:
            el = ["frozenset([" + ", ".join(repr(s) for s in rng.sample(strs, rng.randint(0, 3))) + "])" for _ in range(rng.randint(1, 4))]
        elif k < 0.65:
            el = ["(" + repr(rng.choice(strs)) + ", " + str(rng.randint(0, 3)) + ")" for _ in range(rng.randint(1, 4))]
        elif k < 0.7:
            # tuples are compared component-wise: with a frozenset component they are only partially ordered and never raise
            el = ["(frozenset([" + repr(s) + "]), " + str(rng.randint(0, 1)) + ")" for s in rng.sample(strs, rng.randint(2, 5))]
        elif k < 0.8:
            el = [rng.choice(["Color.red", "Color.green", "None", "1", "'a'", "b'x'"]) for _ in range(rng.randint(1, 4))]
        else:
            el = [repr(s) for s in rng.sample(strs, rng.randint(1, 5))]
        el = list(dict.fromkeys(el))
        order2 = list(el)
        rng.shuffle(order2)
        wrap = rng.choice(["set([{}])", "frozenset([{}])", "[set([{}]), 1]", "{{'k': set([{}])}}", "{{'a': 1, 'b': frozenset([{}])}}",
                           # one-element tuples, namedtuples and nested containers around the set (every container has its own code path)
                           "(set([{}]),)", "[(frozenset([{}]),)]", "{{'k': (set([{}]),)}}", "(1, set([{}]))", "ROW(k=1, v=set([{}]))", "ROW(1, (frozenset([{}]),))",
                           "{{(frozenset([{}]),): 1}}"])
        out.append((wrap.format(", ".join(el)), wrap.format(", ".join(order2))))
    return out


def run_seed(item):
    seed, exprs = item
    env = clean_env({"PYTHONHASHSEED": str(seed)})
    r = sp.run([PY, "-c", CHILD.replace("__SRC__", repr(str(REPO / "src")))], input=json.dumps(exprs).encode(), capture_output=True, env=env, timeout=300)
    if r.returncode != 0:
        return {"error": r.stderr.decode()[-500:]}
    return {"out": json.loads(r.stdout.decode().strip().splitlines()[-1])}


def hashseed_oracle(ctx: Ctx):
    pairs = gen_set_exprs(ctx.rng, 150 if not ctx.thorough else 1500)
    exprs = [p[0] for p in pairs] + [p[1] for p in pairs]
    seeds = [0, 1, 2, 3] if not ctx.thorough else list(range(12))
    res = tmap(run_seed, [(s, exprs) for s in seeds])
    for r in res:
        if "error" in r:
            raise RuntimeError("child interpreter failed: " + r["error"])
    n = len(pairs)
    for i, (a, b) in enumerate(pairs):
        texts = {r["out"][i] for r in res} | {r["out"][n + i] for r in res}
        ctx.count(("seed", a), True, n=2 * len(seeds))
        if len(texts) > 1:
            ctx.report(f"the code for {a} differs across hash seeds / construction orders: {sorted(texts)[:3]}", {"kind": "seed", "expr": a, "expr2": b}, tag="F-05" if "frozenset([" in a and a.count("frozenset(") >= 2 else None)
        elif any(t.startswith("EXC") for t in texts):
            ctx.report(f"code_repr({a}) raised {texts}", {"kind": "seed", "expr": a, "expr2": b})
    # the text of a value does not depend on what was converted BEFORE it in the same process: values that are == and hash alike but are written differently
    hist = ["(0, 1.0)", "(False, 1)", "frozenset({1})", "frozenset({True})", "0.0", "-0.0", "[0.0]", "[-0.0]", "(1,)", "(True,)", "(1.0,)", "{1: 'a'}", "{True: 'a'}", "1", "True", "1.0",
            "{'k': (0, -0.0)}", "{'k': (0, 0.0)}", "(0.0, [1])", "(-0.0, [True])", "b'a'", "'a'", "frozenset({0.0})", "frozenset({-0.0})", "frozenset({False})"]
    fw, bw = tmap(run_seed, [(0, hist), (0, hist[::-1])])
    for r in (fw, bw):
        if "error" in r:
            raise RuntimeError("child interpreter failed: " + r["error"])
    for k, e in enumerate(hist):
        a, b = fw["out"][k], bw["out"][len(hist) - 1 - k]
        ctx.count(("history", e), True, n=2)
        want = None
        try:
            want = eval(a.split(" <|> ")[0]) if not a.startswith("EXC") else None
        except Exception:  # noqa
            pass
        if a != b:
            ctx.report(f"the code for {e} depends on what was converted before it in the same process: {a!r} vs {b!r}", {"kind": "history", "expr": e})
        elif a.startswith("EXC") or repr(want) != repr(eval(e)):
            ctx.report(f"the code for {e} is {a!r}, which does not read back as the value", {"kind": "history", "expr": e})
    ctx.coverage["oracle"]["process_history_values"] = len(hist)
    ctx.coverage["oracle"]["hash_seed_values"] = n
    ctx.coverage["oracle"]["hash_seeds"] = seeds
    ctx.sample({"value": pairs[0][0], "same_value_other_order": pairs[0][1], "text": res[0]["out"][0]})


# whole sessions under several hash seeds: every path that writes a set (or the members of one) gives one text
SEED_SRC = """from inline_snapshot import snapshot
from pydantic import BaseModel, ConfigDict


class Open(BaseModel):
    model_config = ConfigDict(extra="allow")
    a: int


def test_a():
    assert 'new' in snapshot({'alpha', 'beta', 'gamma', 'delta'})
    assert 'x1' in snapshot(frozenset({'p', 'q', 'r', 's'}))
    assert {'u', 'v', 'w', 'x'} == snapshot()
    assert [{'k1', 'k2', 'k3'}, 1] == snapshot([set(), 0])
    for m in ('m1', 'm2'):
        assert m in snapshot({'m1', 'm2', 'zz', 'yy'})
    assert {'a', 'b', 'c'} <= snapshot({'a'})
    assert frozenset({'f1', 'f2', 'f3'}) == snapshot()['key']
    # members without a total order (sets of strings): the kept members are listed by their code, not by their repr
    assert frozenset({'q'}) in snapshot({frozenset({'a', 'z'}), frozenset({'m'}), frozenset({'b', 'y'}), frozenset({'k', 'c'}), frozenset({'d', 'x', 'l'})})
    assert ('t', 0) in snapshot(frozenset({('x', None), ('x', 1), ('v', 's'), ('v', 2.5), ('w', frozenset({'a', 'z', 'm'}))}))


def test_models():
    # keyword arguments come from the model, in its order - never from a set
    assert Open(a=1, zeta=1, alpha=2, mid=3, beta=4, omega=5) == snapshot()
    assert [Open(a=2, k3=1, k1=2, k2=3)] == snapshot([0])
"""


def run_seed_session(item):
    import shutil
    from .. import driver
    seed, flags = item
    d = driver.scratch_dir()
    try:
        driver.write_project(d, {"test_a.py": SEED_SRC})
        r = driver.run_pytest(d, ["--inline-snapshot=" + ",".join(flags)], env={"PYTHONHASHSEED": str(seed)})
        return {"after": (d / "test_a.py").read_text(), "rc": r["rc"], "infra": r.get("infra_error"), "tail": (r["stdout"] + r["stderr"])[-600:]}
    finally:
        shutil.rmtree(d, ignore_errors=True)


def seed_sessions(ctx: Ctx):
    seeds = [0, 1, 2, 3] if not ctx.thorough else list(range(10))
    for flags in (("fix",), ("create", "fix"), ("create", "fix", "trim"), ("trim",)):
        outs = tmap(run_seed_session, [(s_, flags) for s_ in seeds])
        ctx.count(("seed-session", flags), True, n=len(seeds))
        if any(o.get("infra") for o in outs):
            raise RuntimeError("pytest session timed out twice (infrastructure)")
        texts = sorted({o["after"] for o in outs})
        if len(texts) > 1 or any(o["rc"] not in (0, 1) for o in outs):
            import difflib
            diff = [l for l in difflib.unified_diff(texts[0].splitlines(), texts[-1].splitlines(), lineterm="", n=0) if l[:1] in "+-" and l[:3] not in ("+++", "---")][:4]
            ctx.report(f"a session with --inline-snapshot={','.join(flags)} writes {len(texts)} different files under hash seeds {seeds}: {diff}", {"kind": "seed-session", "flags": list(flags)})
    ctx.coverage["oracle"]["sessions_under_hash_seeds"] = 4 * len(seeds)


# ----------------------------------------------------------------------------- C: formatter present / missing / format-command
def run_fmt(item):
    src, = item
    outs = {}
    for setup, kw in (("black", {}), ("noblack", {"block_black": True}), ("fmtcmd", {"format_command": "/venv/bin/python -m black -q -"})):
        r = driver.run_inproc({"test_a.py": src}, ("create", "fix"), **kw)
        if r["session_exc"] or r["module_exc"]:
            return {"error": f"{setup}: {r['session_exc'] or r['module_exc']}"}
        after = r["files"]["test_a.py"].decode()
        try:
            tree = ast.parse(after)
        except SyntaxError as e:
            return {"error": f"{setup}: the rewritten file is not valid Python ({e}): {after[-300:]!r}"}
        args = []
        for n in ast.walk(tree):
            if isinstance(n, ast.Call) and isinstance(n.func, ast.Name) and n.func.id == "snapshot":
                args.append(ast.dump(n.args[0]) if n.args else None)
        outs[setup] = args
    return {"outs": outs}


def formatter_oracle(ctx: Ctx):
    from .. import proggen
    m = 90 if not ctx.thorough else 900
    progs = []
    for i in range(m):
        p = proggen.gen_program(ctx.rng, rich=(i % 2 == 0), style="assert", nsites=ctx.rng.randint(1, 4),
                                opts={"p_missing": 0.5, "p_noncanon": 0.0, "kinds": ["eq", "eq", "in", "getitem"]}, layout={"per_test": 1})
        progs.append(p)
    # strings INSERTED into an existing list / tuple / `in` list / dict (other code paths than a whole new value): black treats a lone string as a docstring
    for k, st in enumerate([" lead", "trail ", "  both  ", "it's \"q\"", "'a' \"", "    if x:", "\ttab ", "x\n "]):
        forms = [f"def test_a():\n    assert ['a', {st!r}, 'b'] == snapshot(['a', 'b'])\n", f"def test_a():\n    for x in ('x', {st!r}):\n        assert x in snapshot(['x'])\n",
                 f"def test_a():\n    assert ('a', {st!r}) == snapshot(('a',))\n", f"def test_a():\n    assert {{'k': 1, {st!r}: {st!r}}} == snapshot({{'k': 1}})\n",
                 f"def test_a():\n    s = snapshot({{'k': 1}})\n    assert s['k'] == 1\n    assert s[{st!r}] == {st!r}\n",
                 # ... and strings that REPLACE an existing leaf (fix of ==, of a bound, of a dict value, of a keyword argument)
                 f"def test_a():\n    assert {st!r} == snapshot('a')\n    assert [{st!r}, 1] == snapshot(['a', 1])\n",
                 f"def test_a():\n    assert {st!r} >= snapshot('zz')\n    assert {{'k': {st!r}}} == snapshot({{'k': 'a'}})\n"]
        progs.append({"source": "from inline_snapshot import snapshot\n\n\n" + forms[k % len(forms)]})
        progs.append({"source": "from inline_snapshot import snapshot\n\n\n" + forms[(k + 2) % len(forms)]})
        progs.append({"source": "from inline_snapshot import snapshot\n\n\n" + forms[5 + k % 2]})
    res = pmap(run_fmt, [(p["source"],) for p in progs], chunksize=2)
    for p, r in zip(progs, res):
        ctx.count(("fmt", p["source"]), True, n=3)
        if "error" in r:
            ctx.report(f"run failed: {r['error']}", {"kind": "fmt", "source": p["source"]})
            continue
        o = r["outs"]
        if not (o["black"] == o["noblack"] == o["fmtcmd"]):
            ctx.report("the rewritten arguments have different syntax trees with black / without black / with a format-command", {"kind": "fmt", "source": p["source"], "outs": o})
    ctx.coverage["oracle"]["formatter_programs"] = m


def run(ctx: Ctx):
    ctx.coverage["rule"] = (
        "A: lists of ints / strs / frozensets of ints (partially ordered) / mixed types / None in random orders: sort_set_values of the implementation vs Model/SortSet.v "
        "in Coq, and all permutations of up to 5 elements must give one text. B: the same set / frozenset / nested value built in two insertion orders, code_repr in fresh "
        "interpreters under PYTHONHASHSEED 0-3 (thorough 0-11): one text. C: programs run with black, with black blocked and with a format-command: the rewritten arguments "
        "have identical syntax trees. D: whole sessions (sets as previous value of `in` / == / <= / [key] snapshots, fix / create / trim) under hash seeds 0-3 (thorough 0-9): one file text. non-trivial = >= 3 elements")
    proof_step(ctx)
    corr_sort(ctx)
    hashseed_oracle(ctx)
    seed_sessions(ctx)
    formatter_oracle(ctx)


def replay_seed_session(flags):
    outs = [run_seed_session((s_, tuple(flags))) for s_ in (0, 1, 2, 3)]
    print({o["after"] for o in outs})
    return len({o["after"] for o in outs}) == 1


def replay_history(expr):
    hist = [expr, "(False, 1)", "(0, 1.0)", "frozenset({True})", "frozenset({1})", "-0.0", "0.0", "True", "1", "1.0", "[-0.0]", "[0.0]"]
    fw, bw = run_seed((0, hist)), run_seed((0, hist[::-1]))
    print(fw, bw)
    return "error" not in fw and "error" not in bw and fw["out"][0] == bw["out"][-1]


def replay(ctx: Ctx, data):
    if isinstance(data.get("case"), dict) and data["case"].get("kind") == "seed-session":
        return replay_seed_session(data["case"]["flags"])
    if isinstance(data.get("case"), dict) and data["case"].get("kind") == "history":
        return replay_history(data["case"]["expr"])
    c = data["case"]
    if c.get("kind") in ("perm", "sort"):
        import itertools
        from inline_snapshot._code_repr import sort_set_values
        el = eval(c["elems"])
        outs = {tuple(sort_set_values(list(p))) for p in itertools.permutations(el[:6])}
        print(outs)
        return len(outs) == 1
    if c.get("kind") == "seed":
        res = [run_seed((s, [c["expr"], c["expr2"]])) for s in (0, 1, 2, 3)]
        texts = {t for r in res for t in r["out"]}
        print(texts)
        return len(texts) == 1
    if c.get("kind") == "fmt":
        r = run_fmt((c["source"],))
        print(r)
        return "error" not in r and r["outs"]["black"] == r["outs"]["noblack"] == r["outs"]["fmtcmd"]
    return True
