"""C11 - fixing a container keeps what did not change."""
from __future__ import annotations

import ast
import itertools

from .. import driver
from ..core import Ctx, coq_eval_shards, g_Z, g_bool, g_list, g_pair, pmap, proof_step
from ..snapgen import CATS, g_flags, render_atom

DIR = {"e": "De", "d": "Dd", "i": "Di", "m": "Dm", "x": "Dx"}


def g_dirs(s):
    return g_list(s, lambda c: DIR[c])


# ----------------------------------------------------------------------------- A: _align vs Model/Align.v

def align_cases(ctx: Ctx):
    rng = ctx.rng
    pairs = []
    small = 3 if not ctx.thorough else 5
    syms = [0, 1] if not ctx.thorough else [0, 1, 2]
    seqs = [list(t) for n in range(small + 1) for t in itertools.product(syms, repeat=n)]
    for a in seqs:
        for b in seqs:
            pairs.append((a, b))
    nrand = 3000 if not ctx.thorough else 40000
    for _ in range(nrand):
        k = rng.choice([2, 3, 4, 6])
        la, lb = rng.randint(0, 12), rng.randint(0, 12)
        a = [rng.randrange(k) for _ in range(la)]
        if rng.random() < 0.6:      # b = mutated a (realistic edits)
            b = list(a)
            for _ in range(rng.randint(0, 4)):
                r = rng.random()
                if r < 0.35 and b:
                    del b[rng.randrange(len(b))]
                elif r < 0.7:
                    b.insert(rng.randint(0, len(b)), rng.randrange(k))
                elif b:
                    b[rng.randrange(len(b))] = rng.randrange(k)
        else:
            b = [rng.randrange(k) for _ in range(lb)]
        pairs.append((a, b))
    # long sequences: an insertion / removal in the middle and changes on both sides of it (prefix / suffix stripping cannot
    # absorb the unchanged elements; the alignment matrix has thousands of cells)
    for _ in range(6 if not ctx.thorough else 40):
        n = rng.randint(66, 110)
        a = [rng.randrange(50) for _ in range(n)]
        b = list(a)
        b[0] = 99
        b[-1] = 98
        for _ in range(rng.randint(1, 3)):
            if rng.random() < 0.5:
                del b[rng.randint(2, len(b) - 3)]
            else:
                b.insert(rng.randint(2, len(b) - 2), 97)
        pairs.append((a, b))
    # very long sequences over a small alphabet (every value is frequent), one or two edits close to each other somewhere in the middle: whatever strategy
    # is used for large inputs, the equal prefix and suffix have to come out as matches (round-9 miss C11-1: a size threshold in front of the stripping)
    for _ in range(10 if not ctx.thorough else 60):
        n = rng.randint(120, 330)
        k = rng.choice([2, 3, 5, 8])
        a = [rng.randrange(k) for _ in range(n)]
        b = list(a)
        pos = rng.randint(5, n - 40)
        for _ in range(rng.randint(1, 2)):
            r = rng.random()
            q = pos + rng.randint(0, 25)
            if r < 0.4:
                del b[q]
            elif r < 0.8:
                b.insert(q, rng.randrange(k))
            else:
                b[q] = k + 1
        pairs.append((a, b))
    return pairs


def corr_align(ctx: Ctx):
    try:
        from inline_snapshot._align import add_x, align
    except Exception as e:  # noqa
        ctx.coverage["correspondence"]["align"] = f"skipped: inline_snapshot._align not importable ({e}); SeqAssign correspondence only"
        return
    pairs = align_cases(ctx)
    terms = []
    impl = []
    for a, b in pairs:
        try:
            s = align(a, b)
            sx = add_x(s)
        except Exception as e:  # noqa
            ctx.report(f"align({a}, {b}) raised {type(e).__name__}: {e}", {"kind": "align", "a": a, "b": b}, kind="correspondence")
            continue
        impl.append((a, b, s, sx))
        terms.append(g_pair(g_list(a, g_Z), g_list(b, g_Z), g_dirs(s), g_dirs(sx)))
        ctx.count(("align", tuple(a), tuple(b)), nontrivial=(a != b and len(a) + len(b) >= 3))
    bad = coq_eval_shards(ctx, "align", "Model.Align Corr.AlignCorr", "case", terms, "mismatches", chunk=500)
    ctx.coverage["traces_validated_against_impl"] += len(terms)
    ctx.coverage["correspondence"]["align"] = {"pairs": len(terms), "mismatches": len(bad),
                                               "exhaustive_up_to": {"len": 5 if ctx.thorough else 3, "symbols": 3 if ctx.thorough else 2}}
    ctx.dist("align_pairs", len(terms))
    ctx.sample({"align": {"a": impl[-1][0], "b": impl[-1][1], "script": impl[-1][2], "add_x": impl[-1][3]}})
    for j in bad[:20]:
        a, b, s, sx = impl[j]
        # is the implementation's script still acceptable for the property? (valid, prefix/suffix m, maximal matches)
        why = check_script(a, b, s, sx)
        ctx.report(f"model and implementation differ on align({a}, {b}): impl {s!r}/{sx!r}" + (f"; property oracle: {why}" if why else ""),
                   {"kind": "align", "a": a, "b": b, "impl": [s, sx]}, no_input=(why is None), kind="correspondence")
    # add_x on arbitrary scripts
    rng = ctx.rng
    xs = []
    for _ in range(600 if not ctx.thorough else 6000):
        s = "".join(rng.choice("ddiim") for _ in range(rng.randint(0, 10)))
        xs.append((s, add_x(s)))
    bad = coq_eval_shards(ctx, "addx", "Model.Align Corr.AlignCorr", "xcase", [g_pair(g_dirs(a), g_dirs(b)) for a, b in xs], "xmismatches", chunk=600)
    ctx.coverage["traces_validated_against_impl"] += len(xs)
    for j in bad[:5]:
        ctx.report(f"model and implementation differ on add_x({xs[j][0]!r}) = {xs[j][1]!r}", {"kind": "add_x", "s": xs[j][0]}, no_input=True, kind="correspondence")


def lcs(a, b):
    m = [[0] * (len(b) + 1) for _ in range(len(a) + 1)]
    for i, x in enumerate(a):
        for j, y in enumerate(b):
            m[i + 1][j + 1] = m[i][j] + 1 if x == y else max(m[i][j + 1], m[i + 1][j])
    return m[-1][-1]


def check_script(a, b, s, sx):
    """independent check of what C11 needs from a script; returns a reason or None"""
    for script in (s, sx):
        ai = bi = 0
        for c in script:
            if c == "m":
                if ai >= len(a) or bi >= len(b) or a[ai] != b[bi]:
                    return f"'m' on unequal or missing pair at ({ai},{bi}) in {script!r}"
                ai += 1
                bi += 1
            elif c == "x":
                ai += 1
                bi += 1
            elif c == "d":
                ai += 1
            elif c == "i":
                bi += 1
            else:
                return f"bad char {c!r}"
        if (ai, bi) != (len(a), len(b)):
            return f"script {script!r} does not consume both sequences"
    p = 0
    while p < min(len(a), len(b)) and a[p] == b[p]:
        p += 1
    if sx[:p] != "m" * p:
        return f"common prefix of length {p} not matched in {sx!r}"
    e = 0
    while e < min(len(a), len(b)) - p and a[-1 - e] == b[-1 - e]:
        e += 1
    if e and sx[-e:] != "m" * e:
        return f"common suffix of length {e} not matched in {sx!r}"
    if sx.count("m") < lcs(a, b):
        return f"{sx.count('m')} matches but a longest common subsequence has {lcs(a, b)}"
    return None


# ----------------------------------------------------------------------------- B: flat sequence assign vs Model/SeqAssign.v

def gen_seq_case(rng, all_noncanon=False, flags=None):
    n = rng.choice([0, 1, 2, 3, 3, 4, 5, 6])
    k = rng.choice([3, 4, 8])
    old = [(rng.randrange(k), (False if all_noncanon else rng.random() < 0.5)) for _ in range(n)]
    new = [v for v, _ in old]
    for _ in range(rng.choice([0, 1, 1, 2, 3])):
        r = rng.random()
        if r < 0.35 and new:
            del new[rng.randrange(len(new))]
        elif r < 0.7:
            new.insert(rng.randint(0, len(new)), rng.randrange(k))
        elif new:
            new[rng.randrange(len(new))] = rng.randrange(k)
    if rng.random() < 0.1:
        new = [rng.randrange(k) for _ in range(rng.randint(0, 5))]
    if flags is None:
        flags = tuple(c for c in CATS if rng.random() < 0.5)
    return {"old": old, "new": new, "flags": tuple(flags), "tuple": rng.random() < 0.4}


def render_seq(elts, is_tuple):
    inner = ", ".join(elts)
    if is_tuple:
        return "(" + inner + ("," if len(elts) == 1 else "") + ")"
    return "[" + inner + "]"


def render_seq_test(case):
    old = render_seq([render_atom(v, c) for v, c in case["old"]], case["tuple"])
    new = render_seq([repr(v) for v in case["new"]], case["tuple"])
    return f"from inline_snapshot import snapshot\n\ndef test_a():\n    assert {new} == snapshot({old})\n"


def find_snapshot_arg(src: str):
    tree = ast.parse(src)
    calls = [n for n in ast.walk(tree) if isinstance(n, ast.Call) and isinstance(n.func, ast.Name) and n.func.id == "snapshot"]
    calls.sort(key=lambda n: (n.lineno, n.col_offset))
    return calls[0].args[0] if calls[0].args else None


def run_seq_case(case):
    src = render_seq_test(case)
    res = driver.run_inproc({"test_a.py": src}, case["flags"])
    after = res["files"]["test_a.py"].decode()
    out = {"source": src, "after": after, "session_exc": res["session_exc"], "reported": res["reported"]}
    try:
        arg = find_snapshot_arg(after)
        want = ast.Tuple if case["tuple"] else ast.List
        if not isinstance(arg, want):
            out["error"] = f"argument is {type(arg).__name__}"
            return out
        elts = []
        for e in arg.elts:
            seg = ast.get_source_segment(after, e)
            val = eval(compile(ast.Expression(e), "<e>", "eval"), {})
            elts.append((val, seg == repr(val), seg))
        out["elts"] = elts
    except Exception as e:  # noqa
        out["error"] = f"{type(e).__name__}: {e}"
    return out


def seq_oracle(case, out):
    """independent statement of C11 (and of the value clause of C02) on one flat case"""
    if out.get("session_exc"):
        return f"session phase raised {out['session_exc']}"
    if "error" in out:
        return f"rewritten file unusable: {out['error']}"
    F = set(case["flags"])
    vals = [v for v, _, _ in out["elts"]]
    oldv = [v for v, _ in case["old"]]
    if "fix" in F and vals != case["new"]:
        return f"after fix the snapshot holds {vals}, observed value {case['new']}"
    if "fix" not in F and vals != oldv:
        return f"value changed without fix: {oldv} -> {vals}"
    if "update" not in F:
        texts = [t for _, _, t in out["elts"]]
        oldt = [render_atom(v, c) for v, c in case["old"]]
        target = case["new"] if "fix" in F else oldv
        p = 0
        while p < min(len(oldv), len(target)) and oldv[p] == target[p]:
            p += 1
        if texts[:p] != oldt[:p]:
            return f"equal common prefix (length {p}) not kept verbatim: {oldt[:p]} -> {texts[:p]}"
        e = 0
        while e < min(len(oldv), len(target)) - p and oldv[-1 - e] == target[-1 - e]:
            e += 1
        if e and texts[-e:] != oldt[-e:]:
            return f"equal common suffix (length {e}) not kept verbatim: {oldt[-e:]} -> {texts[-e:]}"
        # hand-written (non-canonical) survivors: at least as many as a longest common subsequence restricted to them
        if all(not c for _, c in case["old"]):
            surv = sum(1 for v, canon, t in out["elts"] if not canon)
            if surv < lcs(oldv, target):
                return f"only {surv} hand-written elements survive but {lcs(oldv, target)} elements are unchanged (LCS)"
    return None


# ----------------------------------------------------------------------------- D: values that are == but of another type
def gen_xtype_case(rng, i):
    n = rng.randint(2, 5)
    olds = [rng.randint(0, 3) for _ in range(n)]
    news = []
    for v in olds:
        r = rng.random()
        if r < 0.3:
            news.append(float(v))                       # 1 == 1.0
        elif r < 0.45 and v in (0, 1):
            news.append(bool(v))                        # 1 == True
        elif r < 0.75:
            news.append(v)
        else:
            news.append(v + 10)                         # a real change somewhere (so that fix has something to do)
    if all(a == b for a, b in zip(olds, news)):
        news[-1] = olds[-1] + 10
    kind = ["list", "tuple", "dict"][i % 3]
    texts = [render_atom(v, False) for v in olds]
    if kind == "dict":
        old_src = "{" + ", ".join(f"'k{j}': {t}" for j, t in enumerate(texts)) + "}"
        new_src = "{" + ", ".join(f"'k{j}': {v!r}" for j, v in enumerate(news)) + "}"
    else:
        old_src = render_seq(texts, kind == "tuple")
        new_src = render_seq([repr(v) for v in news], kind == "tuple")
    src = f"from inline_snapshot import snapshot\n\ndef test_a():\n    assert {new_src} == snapshot({old_src})\n"
    return {"source": src, "olds": olds, "news": news, "texts": texts, "kind": kind}


def run_xtype_case(c):
    res = driver.run_inproc({"test_a.py": c["source"]}, ("fix",))
    after = res["files"]["test_a.py"].decode()
    out = {"after": after, "session_exc": res["session_exc"]}
    try:
        arg = find_snapshot_arg(after)
        elts = arg.values if isinstance(arg, ast.Dict) else arg.elts
        out["texts"] = [ast.get_source_segment(after, e) for e in elts]
    except Exception as e:  # noqa
        out["error"] = f"{type(e).__name__}: {e}"
    return out


def xtype_oracle(c, o):
    if o["session_exc"] or "error" in o:
        return f"run failed: {o['session_exc'] or o.get('error')}"
    if len(o["texts"]) != len(c["olds"]):
        return f"number of elements changed: {c['texts']} -> {o['texts']}"
    for old, new, t0, t1 in zip(c["olds"], c["news"], c["texts"], o["texts"]):
        if old == new and t0 != t1:
            return f"element {t0} (== {new!r}, unchanged) was rewritten to {t1} by a fix-only run: {c['texts']} -> {o['texts']}"
    return None


def g_seq_case(case, out):
    return g_pair(g_flags(case["flags"]),
                  g_list(case["old"], lambda e: g_pair(g_Z(e[0]), g_bool(e[1]))),
                  g_list(case["new"], g_Z),
                  g_list(out["elts"], lambda e: g_pair(g_Z(e[0]), g_bool(e[1]))),
                  g_pair(g_bool("fix" in out["reported"]), g_bool("update" in out["reported"])))


def corr_seq(ctx: Ctx, n):
    rng = ctx.rng
    cases = [gen_seq_case(rng, all_noncanon=(i % 3 == 0), flags=(("fix",) if i % 2 == 0 else None)) for i in range(n)]
    outs = pmap(run_seq_case, cases, chunksize=8)
    terms, idx = [], []
    for i, (c, o) in enumerate(zip(cases, outs)):
        nt = c["new"] != [v for v, _ in c["old"]] and len(c["old"]) >= 2
        ctx.count(("seq", tuple(c["old"]), tuple(c["new"]), c["flags"], c["tuple"]), nontrivial=nt)
        ctx.dist("seq.len_old=%d" % min(len(c["old"]), 6))
        ctx.dist("seq.flags=" + ",".join(c["flags"]))
        why = seq_oracle(c, o)
        if why:
            ctx.report("C11 oracle: " + why, {"kind": "seq", "case": c, "after": o.get("after")})
            continue
        terms.append(g_seq_case(c, o))
        idx.append(i)
    bad = coq_eval_shards(ctx, "seq", "Model.SnapOps Model.SeqAssign Corr.AlignCorr", "scase", terms, "smismatches")
    ctx.coverage["traces_validated_against_impl"] += len(terms)
    ctx.coverage["correspondence"]["seq_assign"] = {"cases": len(terms), "mismatches": len(bad)}
    if cases:
        ctx.sample({"seq_assign": {"case": cases[0], "after": outs[0].get("after")}})
    for j in bad[:10]:
        c, o = cases[idx[j]], outs[idx[j]]
        ctx.report(f"Model/SeqAssign.v and implementation differ (property oracle silent) on {c}: impl elements {o['elts']} reported {o['reported']}",
                   {"kind": "seq", "case": c, "after": o.get("after")}, no_input=True, kind="correspondence")


# ----------------------------------------------------------------------------- C: dicts, calls, nesting (oracle only)

HEADER = """from inline_snapshot import snapshot
from dataclasses import dataclass

@dataclass
class DC:
    a: int
    b: int = 7
    c: int = 9

"""


def gen_container_case(rng):
    kind = rng.choice(["dict", "dict", "call", "nested"])
    if kind == "dict":
        keys = rng.sample(["a", "b", "c", "d", "e"], rng.randint(1, 4))
        old = {k: rng.randrange(5) for k in keys}
        new = dict(old)
        for _ in range(rng.randint(1, 3)):
            r = rng.random()
            if r < 0.3 and new:
                del new[rng.choice(list(new))]
            elif r < 0.6:
                new[rng.choice("abcdefg")] = rng.randrange(5)
            elif new:
                new[rng.choice(list(new))] = rng.randrange(5, 9)
        return {"kind": kind, "old": old, "new": new}
    if kind == "call":
        old = {"a": rng.randrange(5), "b": rng.randrange(5), "c": rng.randrange(5)}
        new = dict(old)
        for f in rng.sample(["a", "b", "c"], rng.randint(1, 2)):
            new[f] = rng.randrange(10, 14)
        return {"kind": kind, "old": old, "new": new}
    outer = rng.randint(1, 4)
    old = [[rng.randrange(4) for _ in range(rng.randint(0, 3))] for _ in range(outer)]
    new = [list(x) for x in old]
    for _ in range(rng.randint(1, 2)):
        r = rng.random()
        if r < 0.3 and new:
            del new[rng.randrange(len(new))]
        elif r < 0.6:
            new.insert(rng.randint(0, len(new)), [rng.randrange(4)])
        elif new:
            i = rng.randrange(len(new))
            new[i] = new[i] + [rng.randrange(4, 8)]
    return {"kind": kind, "old": old, "new": new}


def nc(v):
    return render_atom(v, False)


def render_container_case(c):
    if c["kind"] == "dict":
        old = "{" + ", ".join(f"{k!r}: {nc(v)}" for k, v in c["old"].items()) + "}"
        return HEADER + f"def test_a():\n    assert {c['new']!r} == snapshot({old})\n"
    if c["kind"] == "call":
        old = "DC(" + ", ".join(f"{k}={nc(v)}" for k, v in c["old"].items()) + ")"
        new = "DC(" + ", ".join(f"{k}={v!r}" for k, v in c["new"].items()) + ")"
        return HEADER + f"def test_a():\n    assert {new} == snapshot({old})\n"
    old = "[" + ", ".join("[" + ", ".join(nc(v) for v in inner) + "]" for inner in c["old"]) + "]"
    return HEADER + f"def test_a():\n    assert {c['new']!r} == snapshot({old})\n"


def run_container_case(c):
    src = render_container_case(c)
    res = driver.run_inproc({"test_a.py": src}, ("fix",))
    after = res["files"]["test_a.py"].decode()
    if res["session_exc"]:
        return f"session phase raised {res['session_exc']}", after
    try:
        arg = find_snapshot_arg(after)
        seg = lambda n: ast.get_source_segment(after, n)  # noqa
        if c["kind"] == "dict":
            got = {ast.literal_eval(k): seg(v) for k, v in zip(arg.keys, arg.values)}
            for k, v in c["old"].items():
                if k in c["new"] and c["new"][k] == v and got.get(k) != nc(v):
                    return f"entry {k!r} unchanged but its text {nc(v)!r} became {got.get(k)!r}", after
            val = {k: eval(t) for k, t in got.items()}
            if val != c["new"]:
                return f"dict after fix {val} != {c['new']}", after
        elif c["kind"] == "call":
            got = {kw.arg: seg(kw.value) for kw in arg.keywords}
            defaults = {"b": 7, "c": 9}
            for k, v in c["old"].items():
                if c["new"][k] == v and not (k in defaults and defaults[k] == v) and got.get(k) != nc(v):
                    return f"keyword {k} unchanged but its text {nc(v)!r} became {got.get(k)!r}", after
        else:
            got = [[seg(e) for e in inner.elts] for inner in arg.elts]
            old, new = c["old"], c["new"]
            p = 0
            while p < min(len(old), len(new)) and old[p] == new[p]:
                p += 1
            for i in range(p):
                if got[i] != [nc(v) for v in old[i]]:
                    return f"unchanged inner list {i} (common prefix) rewritten: {got[i]}", after
            e = 0
            while e < min(len(old), len(new)) - p and old[-1 - e] == new[-1 - e]:
                e += 1
            for i in range(1, e + 1):
                if got[-i] != [nc(v) for v in old[-i]]:
                    return f"unchanged inner list {-i} (common suffix) rewritten: {got[-i]}", after
            val = [[eval(t) for t in inner] for inner in got]
            if val != new:
                return f"nested list after fix {val} != {new}", after
    except Exception as ex:  # noqa
        return f"rewritten file unusable: {type(ex).__name__}: {ex}", after
    return None, after


def oracle_containers(ctx: Ctx, n):
    cases = [gen_container_case(ctx.rng) for _ in range(n)]
    outs = pmap(run_container_case, cases, chunksize=8)
    for c, (why, after) in zip(cases, outs):
        ctx.count(("cont", repr(c)), nontrivial=True)
        ctx.dist("container." + c["kind"])
        if why:
            ctx.report("C11 oracle: " + why, {"kind": "container", "case": c, "after": after})
    ctx.coverage["oracle"]["containers"] = len(cases)
    ctx.sample({"container": cases[0], "source": render_container_case(cases[0])})


# ----------------------------------------------------------------------------- entry points

# H: several tests of one file write the callee of a constructor call with the same text, bound to different objects (a local alias, a local class): what is kept /
# edited is decided for every call by what ITS callee is in ITS frame
SAME_CALLEE_SRC = '''from collections import namedtuple
from dataclasses import dataclass

from inline_snapshot import snapshot


@dataclass
class Point:
    x: int
    y: int = 0
    label: str = ""


def make_point(x, y=0, label=""):
    return Point(x=x, y=y, label=label.strip())


def test_%(first)s():
    P = make_point
    assert Point(1, 2, "a") == snapshot(P(x=1, y=2, label=" a "))


def test_%(second)s():
    P = Point
    assert Point(1, 5, "b") == snapshot(P(x=0+1, y=2, label="b"  ""))


def test_%(third)s():
    Pair = namedtuple("Pair", "first,second")
    assert Pair(1, 2) == snapshot(Pair(first=1, second=2))


def test_%(fourth)s():
    @dataclass
    class Pair:
        first: int
        second: list

    assert Pair(3, [1, 2, 4]) == snapshot(Pair(first=1+2, second=[0+1, 0+2, 3]))
'''
SAME_CALLEE_WANT = ['P(x=1, y=2, label=" a ")', 'P(x=0+1, y=5, label="b"  "")', "Pair(first=1, second=2)", "Pair(first=1+2, second=[0+1, 0+2, 4])"]


def run_same_callee(names):
    src = SAME_CALLEE_SRC % dict(zip(("first", "second", "third", "fourth"), names))
    res = driver.run_inproc({"test_a.py": src}, ("fix",))
    after = res["files"]["test_a.py"].decode()
    got = []
    try:
        tree = ast.parse(after)
        calls = sorted((n for n in ast.walk(tree) if isinstance(n, ast.Call) and isinstance(n.func, ast.Name) and n.func.id == "snapshot"), key=lambda n: n.lineno)
        got = [ast.get_source_segment(after, c.args[0]) for c in calls]
    except Exception as e:  # noqa
        got = f"{type(e).__name__}: {e}"
    return {"got": got, "session_exc": res["session_exc"]}


def same_callee(ctx: Ctx):
    orders = [("1_factory", "2_class", "3_namedtuple", "4_dataclass"), ("2_factory", "1_class", "4_namedtuple", "3_dataclass")]
    for names, o in zip(orders, pmap(run_same_callee, orders, chunksize=1)):
        ctx.count(("same-callee", names), True)
        if o["session_exc"] or o["got"] != SAME_CALLEE_WANT:
            ctx.report(f"C11 oracle: constructor calls written with the same callee text in several tests: after fix the arguments are {o['got']}, expected {SAME_CALLEE_WANT} "
                       f"(only the differing argument is edited; session {o['session_exc']})", {"kind": "same-callee", "names": list(names)})
    ctx.coverage["oracle"]["same_callee_text"] = len(orders)


def run(ctx: Ctx):
    ctx.coverage["rule"] = (
        "A: (a,b) integer sequences: exhaustive up to a small length plus random edit pairs; align/add_x of the implementation vs Model/Align.v evaluated in Coq. "
        "B: flat list/tuple snapshots with canonical and hand-written leaves x new values x flag sets, run through the real code; resulting element texts and reported "
        "categories vs Model/SeqAssign.v; independent oracle: value, verbatim prefix/suffix, survivors >= LCS. C: dict / dataclass / nested lists under fix only (oracle). D: containers whose new elements are == to the old ones but of another type "
        "(1 vs 1.0 vs True) next to a real change, fix only: the equal elements keep their text. Long sequences (66-110 elements) with an indel between two changes in A. E: dict displays (hand-written leaves, nested list / tuple values, Is() parts) vs edited dicts "
        "(keys removed / added / reordered, values changed) x subsets of {fix, update}: the entries of the rewritten display in TEXT ORDER vs Model/DictAssign.v. "
        "distinct = distinct (inputs, flags); non-trivial = sequences differ and have >= 2-3 elements")
    ctx.assumptions += ["Python == on the generated element values is integer equality", "asttokens/ast source segments identify element texts"]
    proof_step(ctx)
    corr_align(ctx)
    corr_seq(ctx, 500 if not ctx.thorough else 5000)
    oracle_containers(ctx, 200 if not ctx.thorough else 2000)
    # E: dict displays (values: leaves or nested lists / tuples) vs Model/DictAssign.v (entries in text order)
    from .. import dictassign as da
    da.check_part(ctx, 400 if not ctx.thorough else 5000, "C11")
    nx = 90 if not ctx.thorough else 900
    xc = [gen_xtype_case(ctx.rng, i) for i in range(nx)]
    for c, o in zip(xc, pmap(run_xtype_case, xc, chunksize=8)):
        ctx.count(("xtype", c["source"]), True)
        why = xtype_oracle(c, o)
        if why:
            ctx.report("C11 oracle: " + why, {"kind": "xtype", "case": c})
    ctx.coverage["oracle"]["equal_values_of_another_type"] = nx
    # F: constructor calls of a generated dataclass vs Model/CallAssign.v (arguments in text order)
    from .. import callassign as ca
    ca.check_part(ctx, 300 if not ctx.thorough else 4000, "C11")
    # G: lists / tuples / dict displays / constructor calls nested in each other at any depth vs Model/Nest.v
    from .. import nestassign as na
    na.check_part(ctx, 400 if not ctx.thorough else 5000, "C11", unm_choices=(0, 0, 0, 0.2))
    same_callee(ctx)


def replay(ctx: Ctx, data):
    if isinstance(data.get("case"), dict) and data["case"].get("kind") == "same-callee":
        o = run_same_callee(tuple(data["case"]["names"]))
        print(o)
        return not o["session_exc"] and o["got"] == SAME_CALLEE_WANT
    if isinstance(data.get("case"), dict) and data["case"].get("kind") == "nest":
        from .. import nestassign as na
        return na.replay_case(data["case"])
    if isinstance(data.get("case"), dict) and data["case"].get("kind") == "call":
        from .. import callassign as ca
        return ca.replay_case(data["case"])
    case = data["case"]
    k = case.get("kind")
    if k == "align":
        from inline_snapshot._align import add_x, align
        s = align(case["a"], case["b"])
        sx = add_x(s)
        print("align:", s, sx)
        return check_script(case["a"], case["b"], s, sx) is None
    if k == "seq":
        c = case["case"]
        c["old"] = [tuple(x) for x in c["old"]]
        c["flags"] = tuple(c["flags"])
        out = run_seq_case(c)
        print(out.get("after"))
        why = seq_oracle(c, out)
        print("oracle:", why)
        return why is None
    if k == "container":
        why, after = run_container_case(case["case"])
        print(after)
        print("oracle:", why)
        return why is None
    if k in ("dict", "dict-orders"):
        from .. import dictassign as da
        return da.replay_case(case)
    if k == "xtype":
        o = run_xtype_case(case["case"])
        why = xtype_oracle(case["case"], o)
        print(o.get("after"), "oracle:", why)
        return why is None
    print("nothing to replay for", k)
    return True
