"""C15 - faults while rewriting never leave a half-written file or a dangling external."""
from __future__ import annotations

import ast
import fnmatch
import hashlib
import json
import os
import re
import shutil
from pathlib import Path

from .. import driver
from ..core import Ctx, coq_eval_shards, g_bool, g_list, g_nat, g_opt, g_pair, proof_step, tmap

PLUG = "vfault"
GARBAGE = ("garbage", "empty", "other")       # exit status 0, but the output is not the formatted code


# ----------------------------------------------------------------------------- projects
def sha(s):
    return hashlib.sha256(s.encode()).hexdigest()


def gen_project(rng, i):
    """1-3 test files; every file has at least one pending create/fix; some outsource new data, some refer to externals
    persisted by an earlier session, some record HasRepr values; formatter-clean or not"""
    nfiles = rng.choice([1, 2, 2, 3])
    files, olds, news = {}, [], []
    uid = 0
    for k in range(nfiles):
        clean = rng.random() < 0.6
        body, mods = [], []
        imports = {"snapshot"}
        nsites = rng.randint(1, 3)
        for _ in range(nsites):
            kind = rng.choice(["fix", "create", "newext", "newext", "oldext", "hasrepr", "fixlist"])
            uid += 1
            if kind == "fix":
                body.append(f"    assert {rng.randint(10, 99)} == snapshot({rng.randint(0, 9)})")
            elif kind == "create":
                body.append(f"    assert {rng.choice(['5', repr('a b'), '[1, 2, 3]', repr({'k': [1, 2]})])} == snapshot()")
            elif kind == "fixlist":
                body.append("    assert [1, 2, 3, 4] == snapshot([1, 3])")
            elif kind == "newext":
                data = f"new-{i}-{uid}-" + "y" * rng.randint(0, 30)
                if rng.random() < 0.3 and news:
                    data = rng.choice(news)          # the same data outsourced twice (also across files)
                imports.add("outsource")
                if rng.random() < 0.3:
                    # outsourced while the module is imported (a module-level constant, a parametrize value): the -new file exists before the first test runs
                    mods.append(f"PAGE{uid} = outsource({data!r})")
                    body.append(f"    assert PAGE{uid} == snapshot()")
                else:
                    body.append(f"    assert outsource({data!r}) == snapshot()")
                if data not in news:
                    news.append(data)
            elif kind == "oldext":
                data = f"old-{i}-{uid}"
                olds.append(data)
                imports |= {"outsource", "external"}
                body.append(f"    assert outsource({data!r}) == snapshot(external(\"{sha(data)[:12]}*.txt\"))")
            else:
                body.append("    assert H() == snapshot()")
        src = "from inline_snapshot import " + ", ".join(sorted(imports)) + "\n"
        if any("H()" in b for b in body):
            src += "\n\nclass H:\n    def __repr__(self):\n        return \"<H>\"\n\n    def __eq__(self, other):\n        return True\n"
        if mods:
            src += "\n" + "\n".join(mods) + "\n"
        src += "\n\ndef test_a():\n" + "\n".join(body) + "\n"
        if not clean:
            src = src.replace(" == snapshot", "   == snapshot", 1).replace("def test_a():", "def test_a( ):")
        files[f"test_f{k}.py"] = src
    setup = ["black", "black", "black", "fmtcmd"][i % 4]
    fmt = ["ok", "ok", "ok", "fail", "garbage", "ok", "empty", "other"][i % 8]
    if fmt in GARBAGE:
        # unparsable output with exit status 0 is what a misconfigured format-command produces (black in process never
        # does); with a format-command the generated fragments are not formatted one by one, only the whole file is
        setup = "fmtcmd"
    return {"files": files, "olds": olds, "news": news, "setup": setup, "fmt": fmt, "hardlink": i % 5 == 3}


def write_project(p, d: Path):
    tool = "[tool.inline-snapshot]\n"
    if p["setup"] == "fmtcmd":
        tool += 'format-command = "/venv/bin/python -m black -q --stdin-filename {filename} -"\n'
    (d / "pyproject.toml").write_text(tool)
    for n, s in p["files"].items():
        (d / n).write_text(s)
    if p.get("hardlink"):
        # the first test file has a second name (a hard link in a directory that is not collected)
        (d / "links").mkdir()
        os.link(d / sorted(p["files"])[0], d / "links" / "f0.link")
    st = d / ".inline-snapshot" / "external"
    st.mkdir(parents=True)
    (st / ".gitignore").write_text("# ignore all snapshots which are not referred in the source\n*-new.*\n")
    for data in p["olds"]:
        (st / f"{sha(data)}.txt").write_bytes(data.encode())


def session(p, at=None, kind="crash"):
    """one real pytest session with the tracing plugin; returns the observations.  kind garble-<how>: the formatter call at
    this boundary prints something else than the formatted code"""
    d = driver.scratch_dir("c15-")
    try:
        write_project(p, d)
        trace = d / "trace.jsonl"
        env = {"VFAULT_TRACE": str(trace), "VFAULT_PHASE": "write", "VFAULT_FMT": p["fmt"], "VFAULT_KIND": kind.split("-")[0]}
        if kind.startswith("garble-"):
            env["VFAULT_GARBLE"] = kind.split("-")[1]
        if at is not None:
            env["VFAULT_AT"] = str(at)
            if at % 2 == 1:
                env["VFAULT_SIGNAL"] = "1"      # every second failing format-command is killed by a signal
        r = driver.run_pytest(d, ["--inline-snapshot=create,fix"], env=env, plugins=(PLUG,))
        if r.get("infra_error"):
            return {"infra": True}
        out = r["stdout"] + r["stderr"]
        events = [json.loads(l) for l in trace.read_text().splitlines()] if trace.exists() else []
        wr = [e for e in events if e["phase"] == "write"]
        files = {n: (d / n).read_bytes() for n in p["files"]}
        leftovers = sorted(x.name[:-len(".inline-snapshot.tmp")] for x in d.iterdir() if x.name.endswith(".inline-snapshot.tmp"))
        st = d / ".inline-snapshot" / "external"
        store = sorted(x.name for x in st.iterdir() if x.name != ".gitignore")
        halted = 1 if r["rc"] == 77 else (2 if "INTERNALERROR" in out or any(e["step"] == "raised" for e in events) else 0)
        return {"rc": r["rc"], "events": wr, "files": files, "store": store, "halted": halted, "out": out[-3000:], "out_all": out, "tmps": leftovers}
    finally:
        shutil.rmtree(d, ignore_errors=True)


# ----------------------------------------------------------------------------- abstraction to the model's vocabulary
def file_order(events):
    order = []
    for e in events:
        if e["step"].split("!")[0] == "read" and e["what"] not in order:
            order.append(e["what"])
    return order


def ext_ids(p):
    """external id = position in news ++ olds; prefix (12 hex) -> id"""
    ids = {}
    for k, data in enumerate(p["news"] + p["olds"]):
        ids[sha(data)[:12]] = k
    return ids


def abstract_trace(events, order, ids):
    out = []
    reported = False
    for e in events:
        step = e["step"]
        if "!crash" in step:
            continue            # the interrupted call itself was not performed
        step = step.split("!")[0]
        if step == "report":
            reported = reported or bool(e["what"])
            continue
        if step == "raised":
            continue
        if step in ("read", "import", "open_w", "write", "mode", "replace"):
            out.append((step, order.index(e["what"]) if e["what"] in order else 99))
        elif step == "persist":
            out.append((step, ids.get(e["what"], 99)))
        elif step == "remove":
            continue
        else:
            out.append((step, None))
    return out, reported


def new_asts(ref_files):
    out = {}
    for n, b in ref_files.items():
        try:
            out[n] = ast.dump(ast.parse(b.decode()))
        except SyntaxError:
            out[n] = None
    return out


def classify(name, data, old, ref_ast):
    """0 old content, 1 complete new content (same syntax tree as the fault-free result), 2 empty, 3 unparsable, 4 anything else"""
    if data == old:
        return 0
    if data == b"":
        return 2
    try:
        t = ast.dump(ast.parse(data.decode()))
    except (SyntaxError, UnicodeDecodeError):
        return 3
    return 1 if t == ref_ast else 4


def used_externals(src):
    try:
        tree = ast.parse(src)
    except SyntaxError:
        return []
    return [n.args[0].value for n in ast.walk(tree)
            if isinstance(n, ast.Call) and isinstance(n.func, ast.Name) and n.func.id == "external" and n.args and isinstance(n.args[0], ast.Constant)]


def used_hasrepr(src):
    try:
        tree = ast.parse(src)
    except SyntaxError:
        return False
    return any(isinstance(n, ast.Call) and isinstance(n.func, ast.Name) and n.func.id == "HasRepr" and len(n.args) == 2 for n in ast.walk(tree))


def dangling(files, store):
    """references that would not resolve after the start of the next session (which removes every *-new.* file)"""
    kept = [s for s in store if not fnmatch.fnmatch(s, "*-new.*")]
    bad = []
    for n, b in files.items():
        for name in used_externals(b.decode("utf-8", "replace")):
            if len([s for s in kept if fnmatch.fnmatch(s, name)]) != 1:
                bad.append((n, name))
    return bad


def config_of(p, ref, order, ids):
    """the model's configuration, derived by the harness from the project and the fault-free result (black is called
    independently for the clean bit)"""
    import black
    cfg = []
    for k, n in enumerate(order):
        src = p["files"][n]
        try:
            clean = black.format_str(src, mode=black.FileMode()) == src
        except Exception:  # noqa
            clean = False
        new = ref["files"][n].decode()
        exts = [ids[x[:12]] for x in used_externals(new) if x[:12] in ids]
        # ensure_import is called whenever the new code uses external(...) or HasRepr(..., ...) (it decides itself whether
        # an import line has to be added)
        needs = bool(used_externals(new)) or used_hasrepr(new)
        cfg.append((k, clean, needs, exts))
    return cfg


def g_step(s):
    name = {"read": "SRead", "import": "SImport", "persist": "SPersist", "open_w": "SOpenW", "write": "SWrite", "mode": "SMode", "replace": "SRename"}
    if s[0] == "format":
        return "SFormat"
    if s[0] == "parse":
        return "SParse"
    return f"({name[s[0]]} {g_nat(s[1])})"


def g_case(p, cfg, flt, obs, nnews, nolds):
    fm = {"ok": "FOk", "fail": "FFails", "garbage": "FGarbage", "empty": "FGarbage", "other": "FGarbage"}[p["fmt"]]
    files = g_list(cfg, lambda f: "{| f_id := %s; f_clean := %s; f_import := %s; f_exts := %s |}" % (g_nat(f[0]), g_bool(f[1]), g_bool(f[2]), g_list(f[3], g_nat)))
    c = "{| c_enforce := %s; c_fmt := %s; c_files := %s |}" % (g_bool(p["setup"] == "fmtcmd"), fm, files)
    # a formatter call that prints something else than the formatted code is handled like a failing formatter call
    f = "None" if flt is None else f"(Some ({g_nat(flt[0])}, {'Crash' if flt[1] == 'crash' else 'Fail'}))"
    o = g_pair(g_list(obs["trace"], g_step), g_list(obs["disk"], lambda e: g_pair(g_nat(e[0]), g_nat(e[1]))),
               g_list(obs["store"], lambda e: g_pair(g_nat(e[0]), g_bool(e[1]))), g_nat(obs["halted"]), g_bool(obs["reported"]), g_list(obs["tmps"], g_nat))
    return g_pair(c, f, g_list(range(nnews), g_nat), g_list(range(nnews, nnews + nolds), g_nat), o)


def observe(p, r, ref, order, ids):
    tr, reported = abstract_trace(r["events"], order, ids)
    refa = new_asts(ref["files"])
    disk = [(k, classify(n, r["files"][n], p["files"][n].encode(), refa[n])) for k, n in enumerate(order)]
    store = []
    for s in r["store"]:
        m = re.fullmatch(r"([0-9a-f]{64})(-new)?(\.[a-z]+)", s)
        if m and m.group(1)[:12] in ids:
            store.append((ids[m.group(1)[:12]], bool(m.group(2))))
    # a problem counts as reported when the report at the end of the write phase shows one, or when the completed session
    # has shown the Problems section before (the same message is not repeated)
    reported = reported or (r["halted"] == 0 and "Problems" in r["out_all"])
    return {"trace": tr, "disk": disk, "store": sorted(store), "halted": r["halted"], "reported": reported,
            "tmps": [order.index(n) for n in r.get("tmps", []) if n in order]}


# ----------------------------------------------------------------------------- oracle (independent of the model)
def judge(p, r, ref, order, flt, tr_ref):
    """returns (message, finding tag) or None"""
    refa = new_asts(ref["files"])
    step_at = tr_ref[flt[0]] if flt is not None and flt[0] < len(tr_ref) else None
    for n in p["files"]:
        cl = classify(n, r["files"][n], p["files"][n].encode(), refa[n])
        if cl in (2, 3, 4):
            what = {2: "is empty (truncated)", 3: "is not valid Python", 4: "is neither its previous nor the complete new content"}[cl]
            tag = None
            return (f"after the fault {flt} at step {step_at} the test file {n} {what}", tag)
    if r.get("tmps") and r["halted"] != 1:
        return (f"after the fault {flt} at step {step_at} a temporary file was left behind next to {r['tmps']} although the process was not interrupted", None)
    bad = dangling(r["files"], r["store"])
    if bad:
        return (f"after the fault {flt} at step {step_at}: dangling external references {bad} (store: {r['store']})", None)
    fmt_fault = flt is not None and flt[1] != "crash" and step_at is not None and step_at[0] == "format"
    if fmt_fault or (p["fmt"] != "ok" and (flt is None or flt[1] != "crash") and any(s_[0] == "format" for s_ in tr_ref)):
        # the formatter failed, or printed something that is not the formatted code: unformatted but correct code plus a reported problem
        if r["halted"] and (flt is None or fmt_fault):
            return (f"a formatter failure ({p['fmt']}, fault {flt}) stopped the session: {r['out'][-400:]}", None)
        if not r["halted"] and not any(e["step"] == "report" and e["what"] for e in r["events"]) and "Problems" not in r["out_all"]:
            return (f"the formatter failed ({p['fmt']}, fault {flt}) but no problem was reported", None)
    return None


def run_project(item):
    p, budget, seed = item
    import random
    rng = random.Random(seed)
    ref = session(p)
    if ref.get("infra"):
        return {"infra": True}
    # the reference for "complete new content" and for the order of the files: the fault-free run of the same project
    # with a working formatter
    good = ref
    if p["fmt"] != "ok":
        good = session(dict(p, fmt="ok"))
        if good.get("infra"):
            return {"infra": True}
    order = file_order(good["events"])
    ids = ext_ids(p)
    tr_ref, _ = abstract_trace(ref["events"], order, ids)
    res = {"ref": ref, "order": order, "runs": [], "tr_ref": tr_ref, "good": good}
    if good["halted"]:
        res["broken"] = "fault-free session ended with an internal error: " + good["out"][-600:]
        return res
    points = [(n, k) for n in range(len(tr_ref) + 1) for k in ("crash", "fail")]
    # a persistent failure of write() (full disk): the first failing write and every later one
    points += [(n, "failall") for n in range(len(tr_ref)) if tr_ref[n][0] == "write"]
    if p["setup"] == "fmtcmd":
        # a format-command that exits with status 0 but prints something else than the formatted code, at one call only
        points += [(n, "garble-" + how) for n in range(len(tr_ref)) if tr_ref[n][0] == "format" for how in ("syntax", "empty", "other")]
    if budget < len(points):
        # always the boundaries around writes and persists, the rest sampled
        key = [(n, k) for (n, k) in points if n < len(tr_ref) and (tr_ref[n][0] in ("write", "open_w", "mode", "replace", "persist") or (p["setup"] == "fmtcmd" and tr_ref[n][0] == "format" and k != "crash"))]
        always = [x for x in key if x[1] == "failall"][:2]          # a persistent write failure is always among the sampled faults
        key = [x for x in key if x not in always]
        rest = [x for x in points if x not in key and x not in always]
        rng.shuffle(key)
        rng.shuffle(rest)
        points = (always + key[: budget // 2] + rest)[:budget]
    for (n, k) in points:
        r = session(p, at=n, kind=k)
        if r.get("infra"):
            return {"infra": True}
        res["runs"].append(((n, k), r))
    return res


def run(ctx: Ctx):
    ctx.coverage["rule"] = (
        "projects of 1-3 test files (formatter-clean or not) with pending create/fix changes, newly outsourced externals (also shared between files), references to "
        "externals persisted earlier, HasRepr values (import insertion); black in process or a format-command; formatter behaviour ok / always failing / returning "
        "unparsable text with exit status 0.  A plugin living in /verif records every side-effecting call of the write phase of the REAL pytest_sessionfinish "
        "(read, formatter call, ast.parse, ensure_import, persist, open of the temporary file, write, copymode, os.replace) and injects one fault at a chosen call boundary: interruption (os._exit "
        "before the call) or failure of the call (black raises / format-command exits non-zero / OSError).  Correspondence: recorded steps, class of every file "
        "afterwards, store, how the run ended, problem reported vs Model/Faults.v evaluated in Coq for the same configuration and fault.  Oracle (independent of the "
        "model): every test file equals its previous bytes or parses to the syntax tree of the complete new content; every external(...) reference in every file "
        "resolves to exactly one non-new file (what survives the next session start); a formatter failure does not stop the session and is reported; a temporary "
        "file is left behind only by an interruption.  "
        "non-trivial = fault injected")
    proof_step(ctx)
    nproj = 10 if not ctx.thorough else 60
    budget = 14 if not ctx.thorough else 10 ** 6
    projects = [gen_project(ctx.rng, i) for i in range(nproj)]
    results = tmap(run_project, [(p, budget, ctx.rng.random()) for p in projects], threads=16)
    terms, meta = [], []
    for p, res in zip(projects, results):
        if res.get("infra"):
            raise RuntimeError("infrastructure error (pytest session timed out twice)")
        ctx.dist(f"files={len(p['files'])}")
        ctx.dist(f"setup={p['setup']}/fmt={p['fmt']}")
        ctx.dist(f"new_externals={min(len(p['news']), 3)}")
        ctx.dist(f"old_externals={min(len(p['olds']), 3)}")
        if "broken" in res:
            ctx.report("C15: " + res["broken"], {"kind": "project", "project": p, "fault": None})
            continue
        order, ids, good, tr_ref = res["order"], ext_ids(p), res["good"], res["tr_ref"]
        cfg = config_of(p, good, order, ids)
        allruns = [(None, res["ref"])] + res["runs"]
        for flt, r in allruns:
            ctx.count(("run", json.dumps(p["files"], sort_keys=True), p["setup"], p["fmt"], flt), flt is not None)
            if flt is not None:
                st = tr_ref[flt[0]][0] if flt[0] < len(tr_ref) else "past-the-end"
                ctx.dist(f"fault={flt[1]}@{st}")
            why = judge(p, r, good, order, flt, tr_ref)
            if why:
                ctx.report("C15 oracle: " + why[0], {"kind": "project", "project": p, "fault": flt}, tag=why[1])
                if ctx.classify(why[1]) is None:
                    continue
            obs = observe(p, r, good, order, ids)
            terms.append(g_case(p, cfg, flt, obs, len(p["news"]), len(p["olds"])))
            meta.append((p, flt, obs))
    bad = coq_eval_shards(ctx, "faults", "Model.Faults Corr.FaultsCorr", "case", terms, "mismatches", chunk=100)
    ctx.coverage["traces_validated_against_impl"] += len(terms)
    ctx.coverage["correspondence"]["write_phase_vs_faults_model"] = {"sessions": len(terms), "mismatches": len(bad)}
    for j in bad[:10]:
        p, flt, obs = meta[j]
        ctx.report(f"Model/Faults.v and the real session differ for fault {flt} (setup {p['setup']}, formatter {p['fmt']}): observed {obs}",
                   {"kind": "project", "project": p, "fault": flt, "observed": obs}, no_input=True, kind="correspondence")
    if meta:
        ctx.sample({"files": list(meta[0][0]["files"]), "fault": meta[-1][1], "observed": meta[-1][2]})


def replay(ctx: Ctx, data):
    c = data["case"]
    p = c["project"]
    flt = tuple(c["fault"]) if c.get("fault") else None
    ref = session(p)
    good = ref if p["fmt"] == "ok" else session(dict(p, fmt="ok"))
    order = file_order(good["events"])
    tr_ref, _ = abstract_trace(ref["events"], order, ext_ids(p))
    r = ref if flt is None else session(p, at=flt[0], kind=flt[1])
    why = judge(p, r, good, order, flt, tr_ref)
    print(r["out"][-800:])
    print({n: b.decode("utf-8", "replace")[-300:] for n, b in r["files"].items()}, r["store"])
    print("judge:", why)
    return why is None
