"""C19 - the public testing helpers reproduce what a real session does."""
from __future__ import annotations

import contextlib
import io
import shutil

from .. import driver, proggen
from ..core import Ctx, coq_eval_shards, g_bool, g_list, g_pair, pmap, proof_step, tmap

CATS = ("create", "fix", "trim", "update")
FLAGC = {"create": "FCreate", "fix": "FFix", "trim": "FTrim", "update": "FUpdate"}


class Rec:
    """compares equal to anything and remembers it (Example's keyword arguments are compared with ==)"""

    def __init__(self):
        self.value = None
        self.seen = False

    def __eq__(self, other):
        self.value = other
        self.seen = True
        return True

    __hash__ = None


def gen_project(rng, i):
    opts = {"p_noncanon": 0.4, "p_same": 0.25, "p_missing": 0.3, "comments": False, "parens": False}
    rich = i % 3 == 0
    p = proggen.gen_program(rng, rich=rich, style="check", nsites=rng.randint(1, 5), opts=opts, layout={"per_test": rng.choice([1, 2])})
    p["flags"] = rng.choice(proggen.flag_subsets())
    p["rich"] = rich
    p["files"] = {"test_something.py": p["source"]}
    if i % 3 == 1:
        # several test files (what one category changes may lie in another file than what another one changes); a part of them in
        # asserting style, so that a failing comparison ends its test (and nothing else)
        for name in ["test_b.py", "test_c.py"][: rng.randint(1, 2)]:
            q = proggen.gen_program(rng, rich=False, style=rng.choice(["check", "assert"]), nsites=rng.randint(1, 3), opts=opts, layout={"per_test": 1})
            p["files"][name] = q["source"]
            p["sites"] = p["sites"] + q["sites"]
    if i % 6 == 0:
        # the test module does not import HasRepr itself: generated code that needs it makes the drivers add the import
        p["source"] = p["source"].replace("from inline_snapshot import snapshot, Is, HasRepr, external, outsource", "from inline_snapshot import snapshot, Is")
        p["flags"] = ("create", "fix")
        p["files"]["test_something.py"] = p["source"]
    return p


def run_inline(prog):
    """Example.run_inline in this process"""
    from inline_snapshot.testing import Example
    files = dict(prog.get("files") or {"test_something.py": prog["source"]})
    args = [f"--inline-snapshot={','.join(prog['flags'])}"] if prog["flags"] else []
    cats, raises = Rec(), Rec()
    buf = io.StringIO()
    try:
        with contextlib.redirect_stdout(buf), contextlib.redirect_stderr(buf):
            ex = Example(files).run_inline(args, reported_categories=cats, raises=raises)
            if prog.get("twice"):
                cats = Rec()
                ex = ex.run_inline(args, reported_categories=cats, raises=Rec())
        return {"files": dict(ex.files), "categories": cats.value if cats.seen else None}
    except BaseException as e:  # noqa
        return {"error": f"{type(e).__name__}: {str(e)[:300]}"}


def run_helper_pytest(prog):
    from inline_snapshot.testing import Example
    files = dict(prog.get("files") or {"test_something.py": prog["source"]})
    args = [f"--inline-snapshot={','.join(list(prog['flags']) + ['report'])}"]
    rc, report = Rec(), Rec()
    buf = io.StringIO()
    try:
        with contextlib.redirect_stdout(buf), contextlib.redirect_stderr(buf):
            ex = Example(files).run_pytest(args, returncode=rc, report=report, term_columns=200)
            if prog.get("twice"):
                rc, report = Rec(), Rec()
                ex = ex.run_pytest(args, returncode=rc, report=report, term_columns=200)
        return {"files": {k: v for k, v in ex.files.items() if k.endswith(".py")}, "report": report.value, "rc": rc.value}
    except BaseException as e:  # noqa
        return {"error": f"{type(e).__name__}: {str(e)[:300]}"}


def run_raw(prog):
    d = driver.scratch_dir()
    try:
        files = dict(prog.get("files") or {"test_something.py": prog["source"]})
        driver.write_project(d, files)
        env = None
        if prog.get("twice"):
            # a second session in the same directory with Python's default byte-code caching (validated by mtime and size of the source)
            import os
            import time
            env = {"PYTHONDONTWRITEBYTECODE": ""}
            old = time.time() - 3600
            for n in files:
                os.utime(d / n, (old, old))
            driver.run_pytest(d, [f"--inline-snapshot={','.join(list(prog['flags']) + ['report'])}"], env=env)
        r = driver.run_pytest(d, [f"--inline-snapshot={','.join(list(prog['flags']) + ['report'])}"], env=env)
        return {"files": {n: (d / n).read_text() for n in files}, "stdout": r["stdout"], "rc": r["rc"], "stderr": r["stderr"][-500:]}
    finally:
        shutil.rmtree(d, ignore_errors=True)


def cats_from_report(text):
    out = []
    for c in CATS:
        if f"{c.capitalize()} snapshots" in text:
            out.append(c)
    return sorted(out)


def run_all(prog):
    # the helpers print the files and the pytest output: silence this worker process at file-descriptor level
    import os
    import sys
    sys.stdout.flush()
    sys.stderr.flush()
    saved = (os.dup(1), os.dup(2))
    devnull = os.open(os.devnull, os.O_WRONLY)
    os.dup2(devnull, 1)
    os.dup2(devnull, 2)
    try:
        if prog.get("prelude"):
            # another example was run in this process before (its configuration must not leak into the next one)
            from inline_snapshot.testing import Example
            try:
                Example(PRELUDE).run_inline(["--inline-snapshot=fix"])
            except BaseException:  # noqa
                pass
        return {"inline": run_inline(prog), "helper": run_helper_pytest(prog), "raw": run_raw(prog)}
    finally:
        sys.stdout.flush()
        sys.stderr.flush()
        os.dup2(saved[0], 1)
        os.dup2(saved[1], 2)
        for fd in (*saved, devnull):
            os.close(fd)


PRELUDE = {"pyproject.toml": '[tool.inline-snapshot]\nformat-command = "/venv/bin/python -m black -q -"\n',
           "test_pre.py": "from inline_snapshot import snapshot\n\n\ndef test_p():\n    assert 2 == snapshot(1)\n"}


def classify(prog, o):
    # F-06: the plugin adds `from inline_snapshot import HasRepr`, run_inline has no ensure_import
    a = o["inline"].get("files", {}).get("test_something.py", "")
    b = o["raw"].get("files", {}).get("test_something.py", "")
    if "HasRepr(" in b and b.replace("\nfrom inline_snapshot import HasRepr\n", "", 1) == a:
        return "F-06"
    # F-48: the corpus project ODD (literals whose generated text black normalises back): run_inline reports an update the sessions hide
    if prog.get("odd") and a == b and set(o["inline"].get("categories") or []) - {"update"} == set(cats_from_report(o["raw"].get("stdout", ""))):
        return "F-48"
    # F-79: the corpus project NESTED with fix approved: the pending update lies inside a node that the approved fix removes; run_inline lists the categories of ALL
    # recorded changes, the sessions do not show a category whose preview is empty once the earlier categories are applied.  Same files, one extra `update`.
    if prog.get("nested") and "fix" in prog["flags"] and a == b and set(o["inline"].get("categories") or []) - set(cats_from_report(o["raw"].get("stdout", ""))) == {"update"}:
        return "F-79"
    return None


def run(ctx: Ctx):
    ctx.coverage["rule"] = (
        "test projects without externals (1-3 test files, 1-5 snapshot sites each over the simple and the rich value universe, comparisons recorded or asserted) x random category subsets: "
        "Example.run_inline, Example.run_pytest and a raw `python -m pytest --inline-snapshot=<flags>,report` session in a scratch directory; the three resulting test files "
        "must be identical and the reported pending categories must coincide; the applied set is compared with Model/Flags.v (inline_applied vs applied) in Coq. "
        "non-trivial = >= 2 sites and at least one category approved")
    proof_step(ctx)
    n = 40 if not ctx.thorough else 500
    progs = [gen_project(ctx.rng, i) for i in range(n)]
    # corpus: the recorded finding F-06 is reproduced on every run
    progs.append({"source": "from inline_snapshot import snapshot\n\nclass W:\n    def __repr__(self):\n        return '<W>'\n    def __eq__(self, o):\n        return True if isinstance(o, W) else NotImplemented\n\ndef test_a():\n    assert W() == snapshot()\n",
                  "flags": ("create",), "sites": [1, 2], "rich": True})
    # tests that fail (and raise) before tests with pending changes, with flags that do not make the comparisons succeed
    RAISING = ("from inline_snapshot import snapshot\n\n\ndef test_1():\n    assert 3 == snapshot(4)\n\n\ndef test_2():\n    assert 2 in snapshot([1, 2])\n\n\n"
               "def test_3():\n    raise ValueError('boom')\n\n\ndef test_4():\n    for x in (1, 2):\n        assert x <= snapshot(5)\n")
    for fl in ((), ("trim",), ("create",), ("trim", "update")):
        progs.append({"source": RAISING, "files": {"test_something.py": RAISING}, "flags": fl, "sites": [1, 2, 3], "rich": False})
    # values whose generated text differs from the hand-written text only in ways the tokens / formatter normalise
    ODD = ("from inline_snapshot import snapshot\n\n\ndef test_1():\n    assert 1e16 == snapshot(1e16)\n    assert {(1,)} == snapshot({(1,)})\n"
           "    assert \"a'b\\\"c\" == snapshot(\"a'b\\\"c\")\n    assert [(2,)] == snapshot([(2,)])\n    assert 0x10 == snapshot(16)\n")
    for fl in ((), ("update",), ("fix", "update")):
        progs.append({"source": ODD, "files": {"test_something.py": ODD}, "flags": fl, "sites": [1, 2, 3], "rich": False, "odd": True})
    # pytest collects `*_test.py` as well as `test_*.py`
    NAMING = {"test_something.py": "from inline_snapshot import snapshot\n\n\ndef test_a():\n    assert 1 == snapshot(2)\n",
              "check_test.py": "from inline_snapshot import snapshot\n\n\ndef test_b():\n    assert [1, 2] == snapshot()\n    assert 5 == snapshot(4)\n"}
    for fl in (("create",), ("create", "fix"), ()):
        progs.append({"source": NAMING["test_something.py"], "files": dict(NAMING), "flags": fl, "sites": [1, 2, 3], "rich": False})
    # an example with its own configuration (format-command) was run in the same process before: the next example (no pyproject.toml, hand-written layout) is not affected
    LOOSE = "from inline_snapshot import snapshot\n\n\ndef test_a( ):\n    x = [1,2,\n      3]\n    assert x   ==   snapshot([1,2])\n    assert {'a':1} == snapshot({'a':2})\n"
    for fl in (("fix",), ("create", "fix", "trim", "update")):
        progs.append({"source": LOOSE, "files": {"test_something.py": LOOSE}, "flags": fl, "sites": [1, 2], "rich": False, "prelude": True})
    # tests whose snapshots depend on the order in which the tests of a file run (shared module state, a snapshot reached through a helper): pytest runs
    # them in definition order, which is not the alphabetical order here
    ORDER = ("from inline_snapshot import snapshot\n\nSEEN = []\n\n\ndef record(tag):\n    SEEN.append(tag)\n    assert len(SEEN) <= snapshot()\n    return list(SEEN)\n\n\n"
             "def test_write():\n    assert record('write') == snapshot()\n\n\ndef test_read():\n    assert record('read') == snapshot(['x'])\n\n\n"
             "def test_append():\n    assert record('append') == snapshot()\n")
    for fl in (("create",), ("create", "fix"), ("fix",)):
        progs.append({"source": ORDER, "files": {"test_something.py": ORDER}, "flags": fl, "sites": [1, 2, 3], "rich": False})
    # a change inside a dict entry that a NOT approved category would delete (inner snapshot in a vanished entry), and the reverse
    NESTED = ("from inline_snapshot import snapshot\n\n\ndef info():\n    return {'name': 'block'}\n\n\ndef test_a():\n"
              "    assert info() == snapshot({'name': 'block', 'size': snapshot(1024 * 4)})\n    assert [1, 'x'] == snapshot([1, {'k': snapshot(0o10)}])\n")
    for fl in (("update",), ("fix",), ("fix", "update"), ()):
        progs.append({"source": NESTED, "files": {"test_something.py": NESTED}, "flags": fl, "sites": [1, 2, 3], "rich": False, "nested": True})
    # the same flags a second time in the same directory (a rewrite that keeps the size of the file; byte-code caching on in the real session)
    TWICE = "from inline_snapshot import snapshot\n\n\ndef test_a():\n    assert [1, 2] == snapshot([2, 1])\n    assert 'abd' == snapshot('abc')\n"
    for fl in (("fix",), ("create", "fix", "trim", "update")):
        progs.append({"source": TWICE, "files": {"test_something.py": TWICE}, "flags": fl, "sites": [1, 2], "rich": False, "twice": True})
    # `in` snapshots whose previous value is no list display (what fix writes depends on whether trim is approved too)
    NONLIST = ("from inline_snapshot import snapshot\n\n\ndef test_a():\n    for x in (2, 3):\n        assert x in snapshot((1, 2))\n    for x in (5, 6):\n        assert x in snapshot({4, 5})\n"
               "    assert 7 in snapshot([7, 8])\n")
    for fl in (("fix", "trim"), ("fix",), ("trim",), ("create", "fix", "trim", "update")):
        progs.append({"source": NONLIST, "files": {"test_something.py": NONLIST}, "flags": fl, "sites": [1, 2, 3], "rich": False})
    # several files, one of which gets new code that uses HasRepr (it imports the name already): the other files are not touched beyond their own changes
    IMPORTS = {"test_a_objects.py": ("from inline_snapshot import snapshot, HasRepr\n\n\nclass NoCode:\n    def __repr__(self):\n        return '<nocode>'\n\n    def __eq__(self, other):\n"
                                     "        return True if isinstance(other, NoCode) else NotImplemented\n\n\ndef test_obj():\n    assert NoCode() == snapshot()\n    assert [NoCode(), 1] == snapshot([0])\n"),
               "test_b_numbers.py": "from inline_snapshot import snapshot\n\n\ndef test_num():\n    assert 5 == snapshot()\n    assert 6 == snapshot(7)\n",
               "test_c_more.py": "from inline_snapshot import snapshot\n\n\ndef test_more():\n    assert [1, 2] == snapshot([1])\n"}
    for fl in (("create",), ("fix",), ("create", "fix")):
        progs.append({"source": IMPORTS["test_a_objects.py"], "files": dict(IMPORTS), "flags": fl, "sites": [1, 2, 3], "rich": False})
    outs = pmap(run_all, progs, procs=12, chunksize=1)
    terms = []
    for p, o in zip(progs, outs):
        ctx.count(("proj", p["source"], p["flags"]), len(p["sites"]) >= 2 and bool(p["flags"]), n=3)
        ctx.dist("flags=" + (",".join(p["flags"]) or "none"))
        errs = [f"{k}: {v['error']}" for k, v in o.items() if "error" in v]
        if errs:
            ctx.report("C19: a driver failed: " + "; ".join(errs), {"kind": "proj", "source": p["source"], "files": p.get("files"), "flags": p["flags"]}, tag=classify(p, o))
            continue
        names = sorted(p.get("files") or {"test_something.py": 0})
        fi, fh, fr = ({n: o[k]["files"].get(n) for n in names} for k in ("inline", "helper", "raw"))
        ci = sorted(o["inline"]["categories"] or [])
        ch = cats_from_report(o["helper"]["report"] or "")
        cr = cats_from_report(o["raw"]["stdout"])
        why = None
        if not (fi == fh == fr):
            which = "run_inline vs run_pytest" if fi != fh else "run_pytest vs raw pytest"
            why = f"changed files differ ({which})"
        elif not (ci == ch == cr):
            why = f"reported categories differ: run_inline {ci}, run_pytest {ch}, raw pytest {cr}"
        if why:
            ctx.report("C19 oracle: " + why, {"kind": "proj", "source": p["source"], "files": p.get("files"), "flags": p["flags"], "inline": fi, "raw": fr, "prelude": p.get("prelude")}, tag=classify(p, o))
            continue
        if p.get("twice"):
            continue            # the observations below describe ONE run
        # which categories were applied (pending and the file changed accordingly) vs the model of both drivers
        pend = {c: c in cr for c in CATS}
        orig = dict(p.get("files") or {"test_something.py": p["source"]})
        terms.append(g_pair(g_list(p["flags"], lambda f: FLAGC[f]), g_pair(*(g_bool(pend[c]) for c in CATS)), g_bool(fi != orig), g_bool(fr != orig)))
    bad = coq_eval_shards(ctx, "drivers", "Model.Flags Corr.DriversCorr", "case", terms, "mismatches")
    ctx.coverage["traces_validated_against_impl"] += len(terms)
    ctx.coverage["correspondence"]["drivers"] = {"projects": len(terms), "mismatches": len(bad)}
    for j in bad[:5]:
        ctx.report("Model/Flags.v (inline_applied / applied) and the drivers differ on whether anything is written", {"kind": "model", "index": j}, no_input=True, kind="correspondence")
    ctx.sample({"project_tail": progs[0]["source"][-400:], "flags": progs[0]["flags"], "categories": outs[0]["inline"].get("categories")})


def replay(ctx: Ctx, data):
    c = data["case"]
    if c.get("kind") != "proj":
        return True
    o = run_all({"source": c["source"], "files": c.get("files"), "flags": tuple(c["flags"]), "prelude": c.get("prelude")})
    if any("error" in v for v in o.values()):
        print(o)
        return False
    names = sorted(c.get("files") or {"test_something.py": 0})
    fi, fh, fr = ({n: o[k]["files"].get(n) for n in names} for k in ("inline", "helper", "raw"))
    return fi == fh == fr
