"""C03 - rewriting touches only the arguments of snapshot() calls."""
from __future__ import annotations

import ast
import io
import re
import shutil
import tokenize

from .. import driver, proggen
from ..core import Ctx, coq_eval_shards, g_list, g_nat, g_opt, g_pair, g_str, pmap, proof_step, tmap

IMPORT_RE = re.compile(r"\nfrom inline_snapshot import (external|HasRepr)\n")


def call_spans(src: str):
    """character spans (start, end) of the text between the parentheses of every snapshot(...) call that is not
    nested inside another snapshot call; computed with ast + tokenize, independent of the code under test"""
    tree = ast.parse(src)
    lines = src.split("\n")
    starts = [0]
    for ln in lines[:-1]:
        starts.append(starts[-1] + len(ln) + 1)

    def off(line, col_utf8):
        text = lines[line - 1]
        return starts[line - 1] + len(text.encode("utf-8")[:col_utf8].decode("utf-8"))
    calls = [n for n in ast.walk(tree) if isinstance(n, ast.Call) and isinstance(n.func, ast.Name) and n.func.id == "snapshot"]
    spans = []
    for c in calls:
        s = off(c.func.end_lineno, c.func.end_col_offset)
        e = off(c.end_lineno, c.end_col_offset)
        # s points at "(" possibly after blanks; e is just after ")"
        p = src.index("(", s)
        spans.append((p + 1, e - 1))
    spans.sort()
    top = []
    for sp in spans:
        if top and sp[0] >= top[-1][0] and sp[1] <= top[-1][1]:
            continue
        top.append(sp)
    return top


def mask(src: str):
    spans = call_spans(src)
    out, p = [], 0
    args = []
    for s, e in spans:
        out.append(src[p:s])
        out.append("\u2400")
        args.append(src[s:e])
        p = e
    out.append(src[p:])
    return "".join(out), args


def strip_import(src: str):
    return IMPORT_RE.sub("", src, count=2)


def masked_ast(src: str):
    tree = ast.parse(src)

    class M(ast.NodeTransformer):
        def visit_Call(self, node):
            if isinstance(node.func, ast.Name) and node.func.id == "snapshot":
                return ast.copy_location(ast.Call(func=node.func, args=[], keywords=[]), node)
            return self.generic_visit(node)
    tree = M().visit(tree)
    tree.body = [n for n in tree.body if not (isinstance(n, ast.ImportFrom) and n.module == "inline_snapshot"
                                             and {a.name for a in n.names} <= {"external", "HasRepr"})]
    return ast.dump(tree)


def judge(before: bytes, after: bytes, whole_file_formatted: bool):
    """the statement of C03 on one file; returns reason or None"""
    try:
        b = before.decode("utf-8")
        a = after.decode("utf-8")
    except UnicodeDecodeError as e:
        return f"result is not UTF-8: {e}"
    if a == b:
        return None
    if a.startswith("\ufeff") != b.startswith("\ufeff"):
        return "the UTF-8 byte order mark at the start of the file was " + ("removed" if b.startswith("\ufeff") else "added")
    a, b = a.removeprefix("\ufeff"), b.removeprefix("\ufeff")
    try:
        compile(a, "<rewritten>", "exec")
    except SyntaxError as e:
        return f"rewritten file is not valid Python: {e}"
    try:
        if whole_file_formatted:
            if masked_ast(a) != masked_ast(b):
                return "syntax tree outside the snapshot() arguments changed (whole-file formatting applies)"
            return None
        mb, argsb = mask(b)
        a_wo = a
        for name in ("external", "HasRepr"):
            line = f"\nfrom inline_snapshot import {name}\n"
            if a.count(line) > b.count(line):         # only an ADDED import line is tolerated (and taken out for the comparison)
                a_wo = a_wo.replace(line, "", 1) if not b.count(line) else a_wo[::-1].replace(line[::-1], "", 1)[::-1]
        ma, argsa = mask(a_wo)
        # the import line is only allowed when the generated code needs that name
        for name in IMPORT_RE.findall(a):
            if a.count(f"\nfrom inline_snapshot import {name}\n") > b.count(f"\nfrom inline_snapshot import {name}\n"):
                if not any(re.search(rf"\b{name}\(", x) for x in argsa):
                    return f"`from inline_snapshot import {name}` was added although no generated snapshot argument uses {name}"
                if re.search(rf"^from inline_snapshot import [^\n]*\b{name}\b", b, re.M):
                    return f"`from inline_snapshot import {name}` was added although the file already imports {name}"
        if len(argsa) != len(argsb):
            return f"number of snapshot() calls changed from {len(argsb)} to {len(argsa)}"
        if ma != mb:
            i = next((i for i, (x, y) in enumerate(zip(ma, mb)) if x != y), min(len(ma), len(mb)))
            return f"text outside the snapshot() arguments changed near {mb[max(0, i - 30):i + 30]!r} -> {ma[max(0, i - 30):i + 30]!r}"
    except Exception as e:  # noqa
        return f"rewritten file cannot be analysed: {type(e).__name__}: {e}"
    return None


def classify(prog, before: bytes, after: bytes, why):
    if b"\r" in before and b"\r" not in after.replace(b"\r\n", b"") and why and "outside" in why:
        return "F-03"
    if b"\r\n" in before and why and "outside" in why:
        return "F-03"
    if prog["opts"].get("parens") and why and ("not valid Python" in why or "cannot be analysed" in why or "number of" in why):
        return "F-20"
    return None


LAYOUTS = [{}, {"nonascii": True}, {"tabs": True}, {"nonascii": True, "tabs": True}, {"no_final_newline": True}, {"crlf": True}, {"nonascii": True, "per_test": 3},
           {"mixed_eol": 2}, {"mixed_eol": 3, "first_crlf": True}, {"odd_breaks": True}, {"odd_breaks": True, "nonascii": True, "per_test": 2},
           {"bom": True}, {"bom": True, "nonascii": True, "per_test": 2},
           # files that black would change at their END only (no final line end, blank lines or a form feed behind the last statement): not formatter-clean
           {"eof": "strip", "force_clean": True}, {"eof": "blank_lines", "force_clean": True}, {"eof": "form_feed", "force_clean": True}, {"eof": "strip", "force_clean": True, "crlf_eof": True}]


def gen_case(rng, i):
    layout = dict(LAYOUTS[i % len(LAYOUTS)])
    opts = {"p_noncanon": 0.4, "comments": True, "parens": (i % 4 == 3)}
    prog = proggen.gen_program(rng, rich=(i % 3 == 0), style="assert", opts=opts, layout=layout)
    prog["opts"] = opts
    prog["flags"] = rng.choice(proggen.flag_subsets()[1:])
    prog["setup"] = rng.choice(["black", "black", "noblack", "fmtcmd"])
    if i % 5 == 0:       # make the file formatter-clean first
        prog["clean"] = True
    return prog


def run_case(prog):
    src = prog["source"]
    kw = {}
    if prog["setup"] == "noblack":
        kw["block_black"] = True
    elif prog["setup"] == "fmtcmd":
        kw["format_command"] = "/venv/bin/python -m black -q -"
    clean = False
    if (prog.get("clean") or prog["layout"].get("mixed_eol") or prog["layout"].get("force_clean")) and not prog["layout"].get("crlf"):
        try:
            import black
            src = black.format_str(src, mode=black.FileMode())
            clean = True
        except Exception:  # noqa
            pass
    eof = prog["layout"].get("eof")
    if eof and clean:
        src = src.rstrip("\n") + {"strip": "", "blank_lines": "\n\n\n", "form_feed": "\n\x0c\n"}[eof]
        if prog["layout"].get("crlf_eof"):
            src = src.replace("\n", "\r\n")
    m = prog["layout"].get("mixed_eol")
    if m:
        # mixed line endings (black does not consider such a file clean: it would normalise them to the ending of the first line)
        lines = src.split("\n")
        first = prog["layout"].get("first_crlf")
        src = "\n".join(ln + ("\r" if (i % m == (0 if first else 1)) and i < len(lines) - 1 else "") for i, ln in enumerate(lines))
    before = src.encode("utf-8")
    res = driver.run_inproc({"test_a.py": before}, prog["flags"], **kw)
    after = res["files"]["test_a.py"]
    import black
    try:
        # formatter-clean as the black command line sees it: universal newlines in, the ending of the first line out
        text = before.decode()
        nl = "\r\n" if text.split("\n", 1)[0].endswith("\r") else "\n"
        uni = text.replace("\r\n", "\n")
        is_clean = "\r" not in uni and black.format_str(uni, mode=black.FileMode()).replace("\n", nl) == text
    except Exception:  # noqa
        is_clean = False
    whole = prog["setup"] == "fmtcmd" or (prog["setup"] == "black" and is_clean)
    out = {"before": before, "after": after, "session_exc": res["session_exc"], "whole": whole, "clean": clean,
           "replacements": res["replacements"].get("test_a.py"), "raw": res["raw_new_code"].get("test_a.py"),
           "read_text": res["read_text"].get("test_a.py"), "reported": res["reported"]}
    return out


def g_case(o):
    rs = g_list(o["replacements"], lambda r: g_pair(g_pair(g_nat(r[0][0]), g_nat(r[0][1])), g_pair(g_nat(r[1][0]), g_nat(r[1][1])), g_str(r[2])))
    return g_pair(g_str(o["read_text"]), rs, g_opt(o["raw"], g_str))


PLUGIN_TESTS = [
    # values recorded through HasRepr / external: the plugin adds an import line, nothing else outside the arguments
    ('"""doc"""\nimport os\nfrom inline_snapshot import snapshot\n\nclass W:\n    def __repr__(self):\n        return "<W>"\n    def __eq__(self, o):\n        return True if isinstance(o, W) else NotImplemented\n\ndef test_a():\n    assert W() == snapshot()\n', "create", False),
    ('from inline_snapshot import snapshot, outsource\n\ndef test_a():\n    assert outsource("x" * 30) == snapshot()\n', "create", False),
    ('from inline_snapshot import snapshot\nimport os  # last import\n\n\nclass W:\n    def __repr__(self):\n        return "<W>"\n\n    def __eq__(self, o):\n        return True if isinstance(o, W) else NotImplemented\n\n\ndef test_a():\n    assert [W(), 1] == snapshot([0])\n', "fix", True),
    ('"""module docstring"""\nfrom __future__ import annotations\nfrom inline_snapshot import snapshot, outsource\n\ndef test_a():\n    assert outsource(b"abc" * 9) == snapshot()\n', "create", False),
    ('# -*- coding: utf-8 -*-\n"""ü"""\nfrom inline_snapshot import snapshot, outsource\nx = 1; y = "é"\ndef test_a():\n    assert [outsource("text" * 9), y] == snapshot()\n', "create", False),
    # the module uses the qualified names only (`import inline_snapshot`): an unrelated fix adds no import line
    ('import inline_snapshot\nfrom inline_snapshot import snapshot\n\n\ndef never_called():\n    return inline_snapshot.external("0123456789ab*.txt"), inline_snapshot.HasRepr(int, "x")\n\n\ndef test_a():\n    assert 5 == snapshot(4)\n', "fix", False),
]


# snapshot() calls in unusual syntactic places (real sessions): whatever is written lies inside the parentheses of a snapshot() call
_H = "# tests of the report text\nfrom inline_snapshot import snapshot\n\n\n"
PLACE_TESTS = [
    (_H + 'def test_a():\n    line = f"result: {7 == snapshot(3)}"\n    assert line\n', "fix"),
    (_H + 'def test_a():\n    line = f"result: {7 == snapshot()}"\n    assert line\n', "create"),
    (_H + 'def test_a():\n    line = f"{[1, 2] == snapshot([1])!r:>10} and {snapshot({\'k\': 1}) == {\'k\': 2}}"\n    assert line\n', "fix"),
    (_H + 'def test_a():\n    assert f"{3 <= snapshot(2)}" and 5 == snapshot(4)\n', "fix"),
    (_H + 'def test_a():\n    assert 1 == snapshot(2); assert 3 == snapshot(4)\n    assert (5 == snapshot(6)) and (7 == snapshot(8))\n', "fix"),
    (_H + 'def check(v, s=snapshot(1)):\n    return v == s\n\n\nclass T:\n    expected = snapshot(2)\n\n    def test_a(self):\n        assert 5 == self.expected\n\n\ndef test_b():\n    assert check(3) or True\n', "fix"),
    (_H + 'def test_a():\n    ok = [x == snapshot(1) for x in (2,)]\n    f = lambda v: v == snapshot(3)\n    assert f(4) or ok\n    assert 9 == \\\n        snapshot(8), "message with snapshot(0) in it"\n', "fix"),
    (_H + 'def test_a():\n    assert 5 == snapshot(\n        4  # the old value\n    )  # trailing\n    assert 6 == snapshot  (  7  )\n', "fix"),
]


W_CLASS = 'class W:\n    def __repr__(self):\n        return "<W>"\n\n    def __eq__(self, o):\n        return True if isinstance(o, W) else NotImplemented\n\n\n'
PLUGIN_PROJECTS = [
    # several files rewritten in one session: what one file needs must not leak into the others
    ({"test_a.py": 'from inline_snapshot import snapshot\n\n\n' + W_CLASS + 'def test_a():\n    assert W() == snapshot()\n',
      "test_b.py": 'from inline_snapshot import snapshot\n\n\ndef test_b():\n    assert 5 == snapshot(4)\n    assert [1, 2] == snapshot()\n',
      "test_c.py": 'from inline_snapshot import snapshot, outsource\n\n\ndef test_c():\n    assert outsource("y" * 40) == snapshot()\n',
      "test_d.py": 'import os\nfrom inline_snapshot import snapshot\n\n\ndef test_d():\n    assert "x" == snapshot("y")\n'}, "create,fix"),
    ({"test_a.py": 'from inline_snapshot import snapshot, outsource\n\n\ndef test_a():\n    assert outsource("z" * 40) == snapshot()\n',
      "test_b.py": 'from inline_snapshot import snapshot, outsource\nfrom inline_snapshot import external\n\n\ndef test_b():\n    assert outsource("z" * 40) == snapshot()\n',
      "sub/test_c.py": 'from inline_snapshot import snapshot\n\n\n' + W_CLASS + 'def test_c():\n    assert [W()] == snapshot([])\n    assert 1 == snapshot()\n',
      "sub/test_d.py": 'from inline_snapshot import snapshot\n\n\ndef test_d():\n    assert 1 == snapshot()\n'}, "create,fix"),
]


def run_plugin_project(item):
    files, flags = item
    d = driver.scratch_dir()
    try:
        driver.write_project(d, files)
        r = driver.run_pytest(d, [f"--inline-snapshot={flags}"])
        return {"after": {n: (d / n).read_bytes() for n in files}, "rc": r["rc"], "tail": (r["stdout"] + r["stderr"])[-1200:]}
    finally:
        shutil.rmtree(d, ignore_errors=True)


def run_plugin_case(item):
    src, flag, _ = item
    d = driver.scratch_dir()
    try:
        driver.write_project(d, {"test_p.py": src})
        r = driver.run_pytest(d, [f"--inline-snapshot={flag}"])
        after = (d / "test_p.py").read_bytes()
        return {"before": src.encode(), "after": after, "rc": r["rc"], "tail": (r["stdout"] + r["stderr"])[-1200:]}
    finally:
        shutil.rmtree(d, ignore_errors=True)


# ----------------------------------------------------------------------------- one file collected under two paths (F-98)
LINKED = [("from inline_snapshot import snapshot\n\ndef test_a():\n    x = 1\n    assert x * 2 == snapshot(1000000), \"doubled\"\n", "fix"),
          ("from inline_snapshot import snapshot\n\ndef test_a():\n    assert 24690 == snapshot()  # c\n\n\ndef test_b():\n    assert [1, 2] == snapshot([1, 5, 2]), 'msg'\n", "create,fix"),
          ("from inline_snapshot import snapshot\n\ndef test_a():\n    assert 5 <= snapshot(900)\n    assert 'k' in snapshot(['k', 'unused'])\n", "trim")]


def run_linked(item):
    """test_two.py is a symbolic link to test_one.py and both are collected: the file is reached through two paths in one session"""
    src, flags = item
    d = driver.scratch_dir()
    try:
        driver.write_project(d, {"test_one.py": src, "pyproject.toml": "[tool.inline-snapshot]\n"})
        (d / "test_two.py").symlink_to("test_one.py")
        r = driver.run_pytest(d, [f"--inline-snapshot={flags}"])
        after = (d / "test_one.py").read_bytes()
        r2 = driver.run_pytest(d, [])
        return {"before": src.encode(), "after": after, "rc": r["rc"], "rc2": r2["rc"], "link": (d / "test_two.py").is_symlink(), "tail": (r["stdout"] + r["stderr"])[-900:]}
    finally:
        shutil.rmtree(d, ignore_errors=True)


def linked_files(ctx: Ctx, only=None):
    items = [it for it in LINKED if only in (None, it[0])]
    for item, o in zip(items, tmap(run_linked, items)):
        ctx.count(("linked", item), True)
        why = None
        if o["rc"] not in (0, 1):
            why = f"the session ended with exit status {o['rc']}"
        else:
            why = judge(o["before"], o["after"], False)
            if why is None and o["after"] == o["before"]:
                why = "nothing was written"
            if why is None and o["rc2"] != 0:
                why = f"the next session (no flags) exits with {o['rc2']}"
            if why is None and not o["link"]:
                why = "the symbolic link was replaced by a file"
        if why:
            ctx.report(f"C03 oracle (a test file collected under two paths: test_two.py -> test_one.py, flags {item[1]}): {why}",
                       {"kind": "linked", "source": item[0], "flag": item[1], "after": o["after"].decode("utf-8", "replace"), "output": o["tail"]}, tag="F-98")
    ctx.coverage["oracle"]["linked_files"] = len(items)


def run(ctx: Ctx):
    ctx.coverage["rule"] = (
        "test modules with 1-5 snapshot sites (==, <=, >=, in, [k]; assert / helper argument / module level / loop) over the simple and the rich value universe, "
        "hand-written previous values with comments, multi-line layout, tabs, non-ASCII text left of the call, no final newline, CRLF; x non-empty subsets of approved "
        "categories x {black, black missing, format-command} x {formatter-clean before or not}. Correspondence: text read, recorded Replacement list and new_code() without "
        "formatter vs Model/Rewrite.v in Coq. Oracle: compile() of the result; bytes outside the snapshot() parentheses (ast+tokenize spans) identical, or identical "
        "syntax tree with arguments masked when whole-file formatting applies; only `from inline_snapshot import external|HasRepr` may be added (real plugin sessions). "
        "non-trivial = at least one replacement recorded and >= 2 sites")
    proof_step(ctx)
    n = 280 if not ctx.thorough else 3000
    progs = [gen_case(ctx.rng, i) for i in range(n)]
    outs = pmap(run_case, progs, chunksize=4)
    terms, idx = [], []
    changed = 0
    for i, (p, o) in enumerate(zip(progs, outs)):
        nrep = len(o["replacements"] or [])
        ctx.count(("prog", p["source"], p["flags"], p["setup"]), nrep >= 1 and len(p["sites"]) >= 2)
        ctx.dist("layout=" + ",".join(sorted(p["layout"])) or "plain")
        ctx.dist("setup=" + p["setup"])
        ctx.dist("whole_file_format=%s" % o["whole"])
        ctx.dist("replacements=%d" % min(nrep, 6))
        if o["session_exc"]:
            why = f"session phase raised {o['session_exc']}"
            ctx.report("C03: " + why, {"kind": "prog", "prog": _ser(p)}, tag=classify(p, o["before"], o["after"], "not valid Python"))
            continue
        changed += o["after"] != o["before"]
        why = judge(o["before"], o["after"], o["whole"])
        if why:
            ctx.report("C03 oracle: " + why, {"kind": "prog", "prog": _ser(p), "after": o["after"].decode("utf-8", "replace")}, tag=classify(p, o["before"], o["after"], why))
            continue
        if o["replacements"] is not None and len(o["read_text"]) < 6000:
            terms.append(g_case(o))
            idx.append(i)
    bad = coq_eval_shards(ctx, "rewrite", "Model.Rewrite Corr.RewriteCorr", "case", terms, "mismatches", chunk=20)
    ctx.coverage["traces_validated_against_impl"] += len(terms)
    ctx.coverage["correspondence"]["rewrite"] = {"files": len(terms), "mismatches": len(bad), "files_changed": changed}
    for j in bad[:10]:
        p, o = progs[idx[j]], outs[idx[j]]
        ctx.report(f"Model/Rewrite.v and implementation differ (oracle silent) on a file with replacements {o['replacements']}",
                   {"kind": "prog", "prog": _ser(p)}, no_input=True, kind="correspondence")
    ctx.sample({"program": progs[1]["source"][-700:], "flags": progs[1]["flags"], "replacements": outs[1]["replacements"]})
    # real plugin sessions (import insertion)
    for item, o in zip(PLUGIN_TESTS, tmap(run_plugin_case, PLUGIN_TESTS)):
        ctx.count(("plugin", item[0]), True)
        if o["rc"] not in (0, 1):
            ctx.report(f"plugin session exit status {o['rc']}", {"kind": "plugin", "source": item[0], "flag": item[1], "output": o["tail"]}, tag=_plugin_tag(item[0], o))
            continue
        why = judge(o["before"], o["after"], item[2])
        if o["after"] == o["before"]:
            why = "nothing was written"
        if why:
            ctx.report("C03 oracle (plugin): " + why, {"kind": "plugin", "source": item[0], "flag": item[1], "after": o["after"].decode("utf-8", "replace"), "output": o["tail"]},
                       tag=_plugin_tag(item[0], o))
    for item, o in zip(PLACE_TESTS, tmap(run_plugin_case, [(a, b, False) for a, b in PLACE_TESTS])):
        ctx.count(("place", item[0]), True)
        why = judge(o["before"], o["after"], False)
        if why is None and (o["rc"] not in (0, 1) or "INTERNALERROR" in o["tail"]):
            why = f"the session ended with exit status {o['rc']} / an internal error"
        if why:
            ctx.report("C03 oracle (snapshot() in an unusual place): " + why, {"kind": "plugin", "source": item[0], "flag": item[1], "after": o["after"].decode("utf-8", "replace"), "output": o["tail"]})
    for item, o in zip(PLUGIN_PROJECTS, tmap(run_plugin_project, PLUGIN_PROJECTS)):
        ctx.count(("plugin_project", repr(item[0])), True)
        if o["rc"] not in (0, 1):
            ctx.report(f"plugin session exit status {o['rc']}", {"kind": "plugin_project", "files": item[0], "flag": item[1], "output": o["tail"]})
            continue
        for n, src in item[0].items():
            why = judge(src.encode(), o["after"][n], False)
            if o["after"][n] == src.encode():
                why = "nothing was written"
            if why:
                ctx.report(f"C03 oracle (plugin, several files, {n}): " + why, {"kind": "plugin_project", "files": item[0], "flag": item[1], "after": o["after"][n].decode("utf-8", "replace")})
    ctx.coverage["oracle"]["plugin_sessions"] = len(PLUGIN_TESTS) + len(PLUGIN_PROJECTS) + len(PLACE_TESTS)
    # the only edit allowed outside snapshot() calls: the inserted import line (Model/Imports.v)
    from .. import importscorr as ic
    ic.check_part(ctx, 300 if not ctx.thorough else 3000, "C03")
    linked_files(ctx)


def _plugin_tag(src, o):
    if "from __future__" in src:
        return "F-15"
    return None


def _ser(p):
    return {k: (v if k != "sites" else None) for k, v in p.items()}


def replay(ctx: Ctx, data):
    case = data["case"]
    if case.get("kind") == "imports":
        from .. import importscorr as ic
        return ic.replay_case(case)
    if case.get("kind") == "linked":
        o = run_linked((case["source"], case["flag"]))
        print(o["after"].decode("utf-8", "replace"), o["tail"])
        return o["rc"] in (0, 1) and judge(o["before"], o["after"], False) is None and o["after"] != o["before"] and o["rc2"] == 0
    if case.get("kind") == "plugin":
        o = run_plugin_case((case["source"], case["flag"], False))
        print(o["after"].decode("utf-8", "replace"), o["tail"])
        return o["rc"] in (0, 1) and judge(o["before"], o["after"], False) is None and o["after"] != o["before"]
    if case.get("kind") == "plugin_project":
        o = run_plugin_project((case["files"], case["flag"]))
        ok = o["rc"] in (0, 1)
        for n, src in case["files"].items():
            why = judge(src.encode(), o["after"][n], False)
            print(n, "oracle:", why)
            ok = ok and why is None and o["after"][n] != src.encode()
        return ok
    p = case["prog"]
    p["flags"] = tuple(p["flags"])
    o = run_case(p)
    print(o["after"].decode("utf-8", "replace"))
    if o["session_exc"]:
        print(o["session_exc"])
        return False
    why = judge(o["before"], o["after"], o["whole"])
    print("oracle:", why)
    return why is None
