"""C02 - approving create and fix repairs every reached snapshot in a single run."""
from __future__ import annotations

import shutil

from .. import driver, proggen, sequpd
from ..core import Ctx, coq_eval_shards, pmap, proof_step, tmap


def gen_prog(rng, i):
    opts = {"p_noncanon": 0.35, "p_same": 0.15, "p_missing": 0.3, "parens": (i % 5 == 4), "comments": True, "maxdepth": 3}
    from .. import valgen
    valgen.DUPKEYS[0] = 0.2 if i % 3 == 0 else 0.0      # previous content "whatever it was": dict displays that repeat a key
    try:
        prog = proggen.gen_program(rng, rich=(i % 2 == 0), style="assert", nsites=rng.randint(1, 6), opts=opts,
                                   layout={"per_test": rng.choice([1, 2, 3, 6]), "raising_first": i % 4 == 1})
    finally:
        valgen.DUPKEYS[0] = 0.0
    prog["opts"] = opts
    return prog


def run_prog(prog):
    r1 = driver.run_inproc({"test_a.py": prog["source"]}, ("create", "fix"))
    out = {"session_exc": r1["session_exc"], "module_exc": r1["module_exc"], "first": [(t[1], t[2][:150]) for t in r1["tests"]]}
    after = r1["files"]["test_a.py"]
    out["after"] = after.decode("utf-8", "replace")
    if r1["session_exc"] or r1["module_exc"]:
        return out
    # the same tests again with inline-snapshot disabled
    r2 = driver.run_inproc({"test_a.py": after}, (), active=False)
    out["second"] = [(t[1], t[2][:300]) for t in r2["tests"]]
    out["module_exc2"] = r2["module_exc"]
    # the first run must have let every test reach its end (comparisons are made to succeed)
    out["first_raised"] = [(t[1], t[2][:200]) for t in r1["tests"] if t[2] != "ok"]
    return out


def judge(prog, o):
    if o["session_exc"]:
        return f"session phase raised {o['session_exc']}"
    if o["module_exc"] or o.get("module_exc2"):
        return f"module could not be executed: {o['module_exc'] or o.get('module_exc2')}"
    bad = [t for t in o["second"] if t[1] != "ok"]
    if bad:
        return f"after create+fix the test {bad[0][0]} still fails with inline-snapshot disabled: {bad[0][1]}"
    if o["first_raised"]:
        return f"with create+fix approved the test {o['first_raised'][0][0]} did not run to its end: {o['first_raised'][0][1]}"
    return None


def dup_key_getitem(source):
    """F-39: a snapshot used with [key] whose dict display repeats a (constant) key"""
    import ast
    try:
        tree = ast.parse(source)
    except SyntaxError:
        return False
    subscripted = {n.value.id for n in ast.walk(tree) if isinstance(n, ast.Subscript) and isinstance(n.value, ast.Name)}
    for n in ast.walk(tree):
        if isinstance(n, ast.Assign) and isinstance(n.value, ast.Call) and isinstance(n.value.func, ast.Name) and n.value.func.id == "snapshot" and n.value.args:
            arg = n.value.args[0]
            names = {t.id for t in n.targets if isinstance(t, ast.Name)}
            if isinstance(arg, ast.Dict) and names & subscripted:
                keys = [ast.dump(k) for k in arg.keys if k is not None]
                if len(keys) != len(set(keys)):
                    return True
    return False


def classify(prog, o, why):
    if why and ("still fails" in why or "did not run to its end" in why) and dup_key_getitem(prog["source"]):
        return "F-39"
    return None


SESSION_PROGS = 10


def run_session_pair(prog):
    d = driver.scratch_dir()
    try:
        driver.write_project(d, {"test_p.py": prog["source"]})
        r1 = driver.run_pytest(d, ["--inline-snapshot=create,fix"])
        r2 = driver.run_pytest(d, ["--inline-snapshot=disable"])
        return {"rc1": r1["rc"], "rc2": r2["rc"], "tail1": (r1["stdout"] + r1["stderr"])[-1000:], "tail2": (r2["stdout"] + r2["stderr"])[-1500:],
                "after": (d / "test_p.py").read_text()}
    finally:
        shutil.rmtree(d, ignore_errors=True)


def run_multi_session(files):
    d = driver.scratch_dir()
    try:
        driver.write_project(d, files)
        r1 = driver.run_pytest(d, ["--inline-snapshot=create,fix"])
        r2 = driver.run_pytest(d, ["--inline-snapshot=disable"])
        return {"rc1": r1["rc"], "rc2": r2["rc"], "tail1": (r1["stdout"] + r1["stderr"])[-1000:], "tail2": (r2["stdout"] + r2["stderr"])[-1500:],
                "after": {n: (d / n).read_text() for n in files}}
    finally:
        shutil.rmtree(d, ignore_errors=True)


def run(ctx: Ctx):
    ctx.coverage["rule"] = (
        "A: containers (list, tuple, dict, call) with 0-5 elements, comments/commas/trailing commas in the gaps, any deletions and insertions: the real "
        "generic_sequence_update (through apply_all) vs Model/SeqUpdate.v in Coq, plus the element/validity statement on the real result. "
        "B: test modules with 1-6 snapshot sites (==, <=, >=, in, [k]; simple and rich value universe; previous content missing / equal / mutated 1-3 times / unrelated type; "
        "hand-written leaves, comments, multi-line layout, redundant parentheses; several sites per test so that later ones come after a failing one) run once with create,fix; "
        "then every test must pass with inline-snapshot inactive; a sample also through real pytest sessions (create,fix then disable). "
        "C: == snapshots holding nested lists / tuples (depth <= 3, hand-written leaves) vs edited observed values (insert, delete, swap, retype, nested edits) x subsets of "
        "{fix, update}: nesting, leaf values and surviving hand-written leaves of the rewritten argument vs Model/TreeAssign.v in Coq. "
        "non-trivial = >= 2 sites or nested / non-builtin values")
    proof_step(ctx)
    # A
    n = 700 if not ctx.thorough else 8000
    cases = [sequpd.gen_case(ctx.rng) for _ in range(n)]
    outs = pmap(sequpd.run_case, cases, chunksize=8)
    terms, idx = [], []
    for i, (c, o) in enumerate(zip(cases, outs)):
        if o.get("skip"):
            continue
        ctx.count(("su", repr(c)), len(c["items"]) >= 2)
        ctx.dist("A.kind=" + c["kind"])
        ctx.dist("A.premise=%s" % sequpd.premise(c))
        if "error" in o or isinstance(o.get("tokens"), tuple):
            if sequpd.premise(c):
                ctx.report(f"generic_sequence_update failed on {o['source']!r}: {o.get('error') or o.get('tokens')}", {"kind": "su", "case": c})
            continue
        why = sequpd.spec_ok(c, o)
        if why and sequpd.premise(c):
            ctx.report(f"C02 oracle (container edit): {why}: {o['source']!r} -> {o['new']!r}", {"kind": "su", "case": c})
            continue
        terms.append(sequpd.g_case(c, o))
        idx.append(i)
    bad = coq_eval_shards(ctx, "sequpdate", "Model.SeqUpdate Corr.SeqUpdateCorr", "case", terms, "mismatches")
    ctx.coverage["traces_validated_against_impl"] += len(terms)
    ctx.coverage["correspondence"]["seq_update"] = {"cases": len(terms), "mismatches": len(bad)}
    for j in bad[:10]:
        c, o = cases[idx[j]], outs[idx[j]]
        ctx.report(f"Model/SeqUpdate.v and implementation differ (oracle silent): {o['source']!r} -> {o['new']!r}", {"kind": "su", "case": c}, no_input=True, kind="correspondence")
    ctx.sample({"container_edit": {"case": cases[0], "source": outs[0].get("source"), "result": outs[0].get("new")}})
    # B
    m = 260 if not ctx.thorough else 3000
    progs = [gen_prog(ctx.rng, i) for i in range(m)]
    # corpus: "whatever the previous content was": dict displays that repeat a key (or hold equal keys like 1 and True), at the top and nested
    H = "from inline_snapshot import snapshot\n\n\ndef test_a():\n"
    for body in ("    assert {'a': 3, 'b': 2} == snapshot({'a': 1, 'b': 2, 'a': 0})\n",
                 "    assert {1: 'x', 2: 'y'} == snapshot({1: 'x', 2: 'z', True: 'w'})\n",
                 "    assert [{'k': 1, 'j': 5}] == snapshot([{'k': 0, 'j': 5, 'k': 2}])\n    assert 4 == snapshot()\n",
                 "    assert {'a': {'b': 1}} == snapshot({'a': {'b': 0, 'b': 2}, 'a': {'b': 3, 'c': 4}})\n"):
        progs.append({"source": H + body, "sites": [{"kind": "eq", "old": 1, "new": ("int", 1)}], "opts": {}})
    # corpus: constructor calls with POSITIONAL arguments (defaultdict) whose previous text has fewer / no / other arguments, followed by another snapshot
    HD = "from collections import defaultdict\nfrom inline_snapshot import snapshot\n\n\ndef test_a():\n    d = defaultdict(list)\n    d[1].append(2)\n"
    for old in ("defaultdict(list)", "defaultdict()", "defaultdict(list, {1: [3]})", "defaultdict(list, {})", "defaultdict(int)", "[1]", ""):
        progs.append({"source": HD + f"    assert d == snapshot({old})\n    assert 1 + 1 == snapshot(3)\n    assert 'x' == snapshot()\n",
                      "sites": [{"kind": "eq", "old": 1, "new": ("int", 1)}] * 3, "opts": {}})
    # corpus: an empty inner snapshot() as the value of a field that holds its default, next to an argument that has to be fixed: it is reached by the
    # run that fixes the other argument (dataclass, attrs, namedtuple; top level and nested)
    HI = ("from dataclasses import dataclass\nfrom typing import NamedTuple\nimport attrs\nfrom inline_snapshot import snapshot\n\n\n@dataclass\nclass DA:\n    a: int\n    b: int = 2\n\n\n"
          "@attrs.define\nclass AA:\n    a: int\n    b: int = 2\n\n\nclass NA(NamedTuple):\n    a: int\n    b: int = 2\n\n\ndef test_a():\n")
    for cls in ("DA", "AA", "NA"):
        for body in (f"    assert {cls}(a=1, b=2) == snapshot({cls}(a=9, b=snapshot()))\n", f"    assert [{cls}(a=1, b=2)] == snapshot([{cls}(a=9, b=snapshot())])\n    assert 3 == snapshot(4)\n",
                     f"    assert {cls}(a=1, b=2) == snapshot({cls}(a=9, b=snapshot(5)))\n"):
            progs.append({"source": HI + body, "sites": [{"kind": "eq", "old": 1, "new": ("int", 1)}] * 2, "opts": {}})
    # corpus: attrs classes with private attributes / aliases, previous content with other values
    HA = ("import attrs\nfrom inline_snapshot import snapshot\n\n\n@attrs.define\nclass PA:\n    _x: int\n    y: int = 0\n    z: int = attrs.field(default=1, alias='zed')\n\n\ndef test_a():\n")
    for body in ("    assert PA(1, 2, 5) == snapshot(PA(x=0, y=2))\n    assert 3 == snapshot(4)\n", "    assert PA(1) == snapshot(PA(x=1, y=7, zed=9))\n", "    assert [PA(1, 2)] == snapshot([PA(x=1)])\n"):
        progs.append({"source": HA + body, "sites": [{"kind": "eq", "old": 1, "new": ("int", 1)}] * 2, "opts": {}})
    res = pmap(run_prog, progs, chunksize=4)
    for p, o in zip(progs, res):
        from ..valgen import nontrivial
        nt = len(p["sites"]) >= 2 or any(s["kind"] == "eq" and nontrivial(s["new"]) for s in p["sites"])
        ctx.count(("prog", p["source"]), nt)
        ctx.dist("B.sites=%d" % len(p["sites"]))
        for s in p["sites"]:
            ctx.dist("B.kind=" + s["kind"] + ("/missing" if s["old"] is None else ""))
        why = judge(p, o)
        if why:
            ctx.report("C02 oracle: " + why, {"kind": "prog", "source": p["source"], "after": o.get("after")}, tag=classify(p, o, why))
    ctx.coverage["oracle"]["programs"] = m
    ctx.sample({"program": progs[0]["source"][-600:], "after": res[0].get("after", "")[-600:]})
    # B2: the compared object (a list, or a tuple / namedtuple holding it) is mutated after the comparison: the created value must still make the
    # disabled re-run pass (what is written is the value at comparison time)
    from . import c17
    ms = [s_ for s_ in (c17.gen_sched(ctx.rng, i) for i in range(24 if not ctx.thorough else 240)) if c17.plain_ok(s_["source"])]
    for s_, o in zip(ms, pmap(run_prog, ms, chunksize=4)):
        ctx.count(("mutation-schedule", s_["source"]), True)
        why = judge(s_, o)
        if why:
            ctx.report("C02 oracle (value mutated after the comparison): " + why, {"kind": "prog", "source": s_["source"], "after": o.get("after")})
    ctx.coverage["oracle"]["mutation_schedules"] = len(ms)
    # C: nested list / tuple snapshots vs Model/TreeAssign.v
    from .. import treeassign as ta
    nt_ = 500 if not ctx.thorough else 6000
    tcases = []
    for i in range(nt_):
        ta.UNM[0] = 0.25 if i % 3 == 0 else 0.0          # a third of the cases hold Is(...) leaves (then judged by the C10 clause)
        tcases.append(ta.gen_case(ctx.rng))
    ta.UNM[0] = 0.0
    touts = pmap(ta.run_case, tcases, chunksize=8)
    tterms, tidx = [], []
    for i, (c, o) in enumerate(zip(tcases, touts)):
        ctx.count(("tree", repr(c)), ta.tree_value(c["tree"]) != c["new"])
        ctx.dist("C.flags=" + ",".join(c["flags"]))
        if o["session_exc"] or "error" in o:
            ctx.report(f"nested == snapshot: run failed: {o['session_exc'] or o.get('error')}", {"kind": "tree", "case": dict(c, new_repr=repr(c["new"])), "source": o["source"]})
            continue
        why = ta.oracle(c, o)
        if why:
            ctx.report("C02 oracle (nested container): " + why, {"kind": "tree", "case": dict(c, new_repr=repr(c["new"])), "source": o["source"], "after_arg": o["arg"]})
            continue
        tterms.append(ta.g_case(c, o))
        tidx.append(i)
    tbad = coq_eval_shards(ctx, "treeassign", "Model.SnapOps Model.TreeAssign Corr.TreeAssignCorr", "case", tterms, "mismatches")
    ctx.coverage["traces_validated_against_impl"] += len(tterms)
    ctx.coverage["correspondence"]["nested_assign"] = {"cases": len(tterms), "mismatches": len(tbad)}
    for j in tbad[:10]:
        c, o = tcases[tidx[j]], touts[tidx[j]]
        ctx.report(f"Model/TreeAssign.v and implementation differ (oracle silent): {ta.render_tree(c['tree'])} observed {c['new']!r} flags {c['flags']} -> {o['arg']}",
                   {"kind": "tree", "case": dict(c, new_repr=repr(c["new"])), "source": o["source"]}, no_input=True, kind="correspondence")
    # constructor calls of a generated dataclass vs Model/CallAssign.v (positional arguments: judged by C05 / C11, finding F-41)
    from .. import callassign as ca
    ca.check_part(ctx, 200 if not ctx.thorough else 3000, "C02", positional=False)
    # dict displays whose values are nested lists / tuples vs Model/DictAssign.v
    from .. import dictassign as da
    da.check_part(ctx, 200 if not ctx.thorough else 3000, "C02")
    # lists / tuples / dict displays / constructor calls nested in each other at any depth vs Model/Nest.v
    from .. import nestassign as na
    na.check_part(ctx, 400 if not ctx.thorough else 5000, "C02", unm_choices=(0, 0, 0, 0.2))
    # `in` snapshots whose previous value is no list display (replaced as a whole) vs Model/CollReplace.v
    from .. import collreplace as cr
    cr.check_part(ctx, 120 if not ctx.thorough else 1600, "C02")
    # real sessions
    sp = [gen_prog(ctx.rng, i) for i in range(SESSION_PROGS if not ctx.thorough else 80)]
    for p, o in zip(sp, tmap(run_session_pair, sp)):
        ctx.count(("session", p["source"]), True)
        if o["rc1"] not in (0, 1):
            ctx.report(f"create,fix session exit status {o['rc1']}", {"kind": "session", "source": p["source"], "output": o["tail1"]})
        elif o["rc2"] != 0:
            ctx.report("after a create,fix session the tests fail with --inline-snapshot=disable", {"kind": "session", "source": p["source"], "after": o["after"], "output": o["tail2"]},
                       tag="F-39" if dup_key_getitem(p["source"]) else None)
    ctx.coverage["oracle"]["session_pairs"] = len(sp)
    from .. import twins
    twins.check(ctx, "C02", [p["source"] for p in sp[:2 if not ctx.thorough else 10]], flag_sets=(("create", "fix"),))
    # several test files in one create,fix session: every file has something to create, exactly one of them also something to fix
    # (whatever order the files are registered in, the file with the fix is not always the last one)
    for k in range(3):
        files = {f"test_m{j}.py": "from inline_snapshot import snapshot\n\n\ndef test_c():\n    assert %d == snapshot()\n" % j
                 + ("\n\ndef test_f():\n    assert 'new' == snapshot('old')\n    assert [1, 2] == snapshot([1])\n" if j == k else "") for j in range(3)}
        o = run_multi_session(files)
        ctx.count(("multi-session", k), True)
        if o["rc1"] not in (0, 1):
            ctx.report(f"create,fix session over three files: exit status {o['rc1']}", {"kind": "multi-session", "files": files, "output": o["tail1"]})
        elif o["rc2"] != 0:
            ctx.report(f"after a create,fix session over three files (fix pending only in test_m{k}.py) the tests fail with --inline-snapshot=disable",
                       {"kind": "multi-session", "files": files, "after": o["after"], "output": o["tail2"]})
    ctx.coverage["oracle"]["multi_file_sessions"] = 3


def replay(ctx: Ctx, data):
    if isinstance(data.get("case"), dict) and data["case"].get("kind") == "twins":
        from .. import twins
        return twins.replay(data["case"])
    if isinstance(data.get("case"), dict) and data["case"].get("kind") == "collreplace":
        from .. import collreplace as cr
        return cr.replay_case(data["case"]["case"])
    if isinstance(data.get("case"), dict) and data["case"].get("kind") == "nest":
        from .. import nestassign as na
        return na.replay_case(data["case"])
    if isinstance(data.get("case"), dict) and data["case"].get("kind") in ("dict", "dict-orders"):
        from .. import dictassign as da
        return da.replay_case(data["case"])
    if isinstance(data.get("case"), dict) and data["case"].get("kind") == "call":
        from .. import callassign as ca
        return ca.replay_case(data["case"])
    c = data["case"]
    if c.get("kind") == "multi-session":
        o = run_multi_session(c["files"])
        print(o["tail2"][-600:])
        return o["rc1"] in (0, 1) and o["rc2"] == 0
    if c.get("kind") == "su":
        case = c["case"]
        case["g0"] = [tuple(x) for x in case["g0"]]
        case["items"] = [(i, [tuple(x) for x in g]) for i, g in case["items"]]
        o = sequpd.run_case(case)
        print(o)
        return "error" not in o and not isinstance(o.get("tokens"), tuple) and sequpd.spec_ok(case, o) is None
    if c.get("kind") == "prog":
        o = run_prog({"source": c["source"]})
        print(o.get("after"), o.get("second"))
        return judge(None, o) is None
    if c.get("kind") == "tree":
        from .. import treeassign as ta

        def tt(t):
            return tuple(t) if t[0] in ("leaf", "unm") else (t[0], [tt(x) for x in t[1]])
        case = {"tree": tt(c["case"]["tree"]), "new": eval(c["case"]["new_repr"]), "flags": tuple(c["case"]["flags"])}
        o = ta.run_case(case)
        print(o.get("arg"), o.get("error"), o.get("session_exc"))
        return not o["session_exc"] and "error" not in o and ta.oracle(case, o) is None
    if c.get("kind") == "session":
        o = run_session_pair({"source": c["source"]})
        print(o["tail2"])
        return o["rc1"] in (0, 1) and o["rc2"] == 0
    return True
