"""C10 - parts the user controls are never rewritten."""
from __future__ import annotations

import ast
import re

from .. import driver, proggen, valgen
from ..core import Ctx, coq_eval_shards, g_Z, g_bool, g_list, g_nat, g_pair, pmap, proof_step
from ..snapgen import CATS, g_flags, render_atom

HEADER = '''from dataclasses import dataclass
from inline_snapshot import snapshot, Is
from inline_snapshot._unmanaged import declare_unmanaged

@dataclass
class DC:
    a: object
    b: object = 5


@declare_unmanaged
class AnyValue:
    """stands in for a dirty-equals expression (dirty-equals is not installed here): same code path (is_unmanaged)"""
    def __init__(self, tag):
        self.tag = tag
    def __eq__(self, other):
        return True
    def __repr__(self):
        return f"AnyValue({self.tag!r})"


'''


class G:
    """generates (old source with unmanaged parts, current value of that source, observed value, list of unmanaged snippets)"""

    def __init__(self, rng, agree):
        self.rng = rng
        self.agree = agree          # unmanaged parts evaluate to the observed value at their position
        self.vars = []              # module-level variables: (name, value source)
        self.snips = []             # verbatim texts that must survive (or vanish as a whole)
        self.frozen = []            # texts of containers holding star-expressions
        self.n = 0
        self.shape_changed = False  # an element was inserted / deleted (alignment may then pair an unmanaged part with another position)

    def var(self, valsrc):
        name = f"V{len(self.vars)}"
        self.vars.append((name, valsrc))
        return name

    def leaf(self):
        r = self.rng
        return r.choice([("int", r.randint(0, 9)), ("str", r.choice(["a", "b c", "x'y"])), ("none",), ("bool", True)])

    def unmanaged(self, observed):
        """an unmanaged expression standing at a position whose observed value is `observed`"""
        r = self.rng
        self.n += 1
        cur = observed if self.agree else valgen.mutate(r, observed)
        k = r.random()
        if k < 0.45:
            txt = f"Is({self.var(valgen.render(cur))})"
        elif k < 0.6 and cur[0] == "str" and "'" not in cur[1] and "{" not in cur[1] and "\n" not in cur[1] and "\\" not in cur[1]:
            v = self.var(valgen.render(("str", cur[1][:1])))
            txt = "f'{" + v + "}" + cur[1][1:] + "'"
            if not cur[1]:
                txt = f"Is({self.var(repr(''))})"
            elif r.random() < 0.3:
                # an f-string without replacement fields (f'ready', f'{{}}'): still an f-string, still the user's
                txt = "f'" + cur[1] + "'"
        elif k < 0.8:
            txt = f"snapshot({valgen.render(cur)})"
            if not self.agree:
                txt = f"Is({self.var(valgen.render(cur))})"    # an inner snapshot with another value would be a failing independent snapshot
        else:
            txt = f"AnyValue({self.n})"
        self.snips.append(txt)
        return txt

    def build(self, depth=0):
        """returns (old_src, observed value tree)"""
        r = self.rng
        k = r.random()
        if depth >= 2 or k < 0.25:
            obs = self.leaf()
            if r.random() < 0.35:
                return self.unmanaged(obs), obs
            old = obs if r.random() < 0.6 else valgen.mutate(r, obs)
            txt = valgen.render(old)
            if old[0] == "int" and r.random() < 0.4:
                txt = render_atom(old[1], False)
            return txt, obs
        n = r.randint(1, 4)
        if k < 0.55:       # list / tuple
            t = r.choice(["list", "tuple"])
            parts, obs = [], []
            star = r.random() < 0.15
            for i in range(n):
                s, o = self.build(depth + 1)
                ev = r.random()
                if ev < 0.12:
                    obs.append(o)            # observed has an element the source lacks (insert)
                    self.shape_changed = True
                elif ev < 0.24:
                    parts.append(s)          # source has an element the observation lacks (delete)
                    self.shape_changed = True
                else:
                    parts.append(s)
                    obs.append(o)
            if star:
                extra = [self.leaf() for _ in range(r.randint(0, 2))]
                v = self.var("[" + ", ".join(valgen.render(x) for x in extra) + "]")
                parts.append(f"*{v}")
                obs += extra
            body = ", ".join(parts)
            txt = "[" + body + "]" if t == "list" else "(" + body + ("," if len(parts) == 1 else "") + ")"
            if star:
                self.frozen.append(txt)
            return txt, (t, obs)
        if k < 0.85:       # dict
            keys = r.sample(["k1", "k2", "k3", "k4", "k5"], n)
            parts, obs = [], []
            star = r.random() < 0.15
            for key in keys:
                s, o = self.build(depth + 1)
                ev = r.random()
                if ev < 0.12:
                    obs.append((("str", key), o))
                    self.shape_changed = True
                elif ev < 0.24:
                    parts.append(f"{key!r}: {s}")
                    self.shape_changed = True
                else:
                    parts.append(f"{key!r}: {s}")
                    obs.append((("str", key), o))
            if star:
                extra = [(("str", "z1"), self.leaf())] if r.random() < 0.6 else []
                v = self.var("{" + ", ".join(f"{valgen.render(a)}: {valgen.render(b)}" for a, b in extra) + "}")
                parts.append(f"**{v}")
                obs += extra
            txt = "{" + ", ".join(parts) + "}"
            if star:
                self.frozen.append(txt)
            return txt, ("dict", obs)
        # constructor call
        sa, oa = self.build(depth + 1)
        sb, ob = self.build(depth + 1)
        return f"DC(a={sa}, b={sb})", ("dc", {"a": oa, "b": ob})


def gen_case(rng, i):
    g = G(rng, agree=(i % 2 == 0))
    old, obs = g.build(0)
    flags = tuple(rng.choice(proggen.flag_subsets())) if i % 3 else ("create", "fix")
    varlines = "".join(f"{n} = {v}\n" for n, v in g.vars)
    src = HEADER + varlines + f"\n\ndef test_a():\n    assert {valgen.render(obs)} == snapshot({old})\n"
    return {"source": src, "old": old, "snips": g.snips, "frozen": g.frozen, "agree": g.agree, "flags": flags, "shape_changed": g.shape_changed}


def arg_text(src):
    tree = ast.parse(src)
    f = [n for n in tree.body if isinstance(n, ast.FunctionDef) and n.name == "test_a"][0]
    calls = [n for n in ast.walk(f) if isinstance(n, ast.Call) and isinstance(n.func, ast.Name) and n.func.id == "snapshot"]
    calls.sort(key=lambda n: (n.lineno, n.col_offset))
    c = calls[0]
    return ast.get_source_segment(src, c.args[0]) if c.args else ""


def run_case(case):
    r = driver.run_inproc({"test_a.py": case["source"]}, case["flags"], block_black=True)
    out = {"session_exc": r["session_exc"], "module_exc": r["module_exc"], "warnings": r["warnings"], "first": [(t[1], t[2][:200]) for t in r["tests"]]}
    after = r["files"]["test_a.py"].decode("utf-8", "replace")
    out["after"] = after
    try:
        out["arg"] = arg_text(after)
    except Exception as e:  # noqa
        out["error"] = f"{type(e).__name__}: {e}"
        return out
    if case["agree"] and not case.get("shape_changed") and {"create", "fix"} <= set(case["flags"]):
        r2 = driver.run_inproc({"test_a.py": r["files"]["test_a.py"]}, (), active=False)
        out["second"] = [(t[1], t[2][:300]) for t in r2["tests"]]
    return out


def count_occ(text, snip):
    """occurrences of a user-controlled expression; an inner snapshot(...) is managed on its own (its argument may be repaired
    by its own comparison, possibly to the text of another generated snippet), so inner snapshots are counted as such"""
    if snip.startswith("snapshot("):
        return len(re.findall(re.escape("snapshot(#)"), mask_inner(text)))
    return len(re.findall(re.escape(snip), text))


def judge(case, o):
    if o["module_exc"]:
        return None if "harness" else None
    if o["session_exc"]:
        return f"session phase raised {o['session_exc']}"
    if "error" in o:
        return f"rewritten file unusable: {o['error']}"
    arg = o["arg"]
    old = case["old"]
    F = set(case["flags"])
    for s in case["snips"]:
        before, after = count_occ(old, s), count_occ(arg, s)
        if after > before:
            return f"user-controlled expression {s} was duplicated"
        if after < before:
            if "fix" not in F:
                return f"user-controlled expression {s} disappeared although fix was not approved"
            if case["agree"] and not any(s in fz for fz in case["frozen"]):
                # its value agrees with the observation: it may only vanish together with an element that holds it
                # (an element of the source that the observation lacks)
                pass
    marg = mask_inner(arg)
    for fz in case["frozen"]:
        if mask_inner(fz) not in marg and star_marker(fz) in arg:
            return f"a container holding a star-expression was rewritten: {fz} -> {arg}"
    if "second" in o:
        bad = [t for t in o["second"] if t[1] != "ok"]
        if bad and not case["frozen"]:
            return f"managed siblings were not repaired: after create,fix the test fails with inline-snapshot disabled: {bad[0][1]}"
    return None


def mask_inner(text):
    """replace the argument of every inner snapshot(...) call by a placeholder (balanced parentheses)"""
    out, i = [], 0
    while True:
        j = text.find("snapshot(", i)
        if j < 0:
            out.append(text[i:])
            return "".join(out)
        out.append(text[i:j] + "snapshot(#)")
        k, depth = j + len("snapshot("), 1
        quote = None
        while k < len(text) and depth:
            ch = text[k]
            if quote:
                if ch == "\\":
                    k += 1
                elif ch == quote:
                    quote = None
            elif ch in "'\"":
                quote = ch
            elif ch in "([{":
                depth += 1
            elif ch in ")]}":
                depth -= 1
            k += 1
        i = k


def star_marker(fz):
    m = re.search(r"\*\*?V\d+", fz)
    return m.group(0) if m else "\0"


def classify(case, o):
    exc = o.get("session_exc") or ""
    if "Replacement(" in exc and "snapshot(" in case["old"].split("snapshot(", 1)[-1] + " ":
        pass
    if "Replacement(" in exc and case["old"].count("snapshot(") >= 1 and ("(" in case["old"]):
        return "F-29"       # inner snapshot inside a tuple / call whose holder the parent deletes or replaces
    return None


# ---- C: other uses of a snapshot that holds user-controlled parts: never compared, membership, sub-snapshots in loops
def gen_usage(rng, i):
    kind = ["never", "in", "getitem_loop", "never", "in_nested", "bound_nested", "bound_fstring", "getitem_star", "star_nested",
            "in_star", "star_loop", "equal_other_spelling", "call_hidden_kw", "inner_field", "fstring_nofield", "never_factory", "cond_inner", "in_nonlist_unm", "leaf_fkey", "leaf_call_pos_unm", "set_star", "bound_star"][i % 22]
    g = G(rng, agree=True)
    flags = tuple(rng.choice(proggen.flag_subsets()))
    if kind == "never":
        old, _obs = g.build(0)
        if not g.snips:                       # make sure there is something to protect
            old = "[" + old + ", " + g.unmanaged(("str", "ab")) + ", " + g.unmanaged(("int", 3)) + ", 1+1]"
        body = f"S = snapshot({old})\n\n\ndef test_a():\n    pass\n"
        allowed = set()                       # no comparison: nothing may ever be removed
    elif kind == "in":
        elts, tested = [], []
        for _ in range(rng.randint(2, 5)):
            v = g.leaf()
            if rng.random() < 0.5:
                u = g.unmanaged(v)
                while u.startswith("snapshot("):      # an inner snapshot is compared with every tested value and repairs ITSELF: not a part the parent must keep
                    g.snips.pop()
                    u = g.unmanaged(v)
                elts.append(u)
            else:
                elts.append(render_atom(v[1], rng.random() < 0.5) if v[0] == "int" else valgen.render(v))
            if rng.random() < 0.6:
                tested.append(v)
        if rng.random() < 0.4:
            tested.append(("int", 77))      # a value the list lacks (fix)
        if not tested:
            tested.append(("int", 78))
        lines = "".join(f"    R.append({valgen.render(t)} in s)\n" for t in tested)
        body = f"R = []\n\n\ndef test_a():\n    s = snapshot([{', '.join(elts)}])\n{lines}"
        allowed = {"trim"}                    # an element that is never tested may be trimmed as a whole
    elif kind == "in_nested":
        # members that are containers holding a user-controlled part (every member is tested: nothing to trim)
        elts, tested = [], []
        for _ in range(rng.randint(1, 3)):
            a, b = rng.randint(0, 9), rng.randint(0, 9)
            u = g.unmanaged(("int", a))
            while u.startswith("snapshot(") or u.startswith("AnyValue"):
                g.snips.pop()
                u = g.unmanaged(("int", a))
            shape = rng.choice(["[%s, %s]", "(%s, %s)", "{'k': %s, 'm': %s}"])
            elts.append(shape % (u, render_atom(b, rng.random() < 0.5)))
            tested.append(shape % (a, b))
        if rng.random() < 0.4:
            tested.append("[77]")
        lines = "".join(f"    R.append({t} in s)\n" for t in tested)
        body = f"R = []\n\n\ndef test_a():\n    s = snapshot([{', '.join(elts)}])\n{lines}"
        allowed = set()
    elif kind == "bound_nested":
        # a bound that is a list holding a user-controlled part; the observed value equals the bound (only update could apply)
        a, b = rng.randint(0, 9), rng.randint(0, 9)
        u = g.unmanaged(("int", a))
        while u.startswith("snapshot(") or u.startswith("AnyValue"):
            g.snips.pop()
            u = g.unmanaged(("int", a))
        op = rng.choice(["<=", ">="])
        body = f"def test_a():\n    assert [{a}, {b}] {op} snapshot([{u}, {render_atom(b, False)}])\n"
        allowed = set()
    elif kind == "bound_fstring":
        # an f-string as the whole bound: equal (update), or the observed string lies on either side of it (fix / trim)
        v = g.var(repr("m"))
        txt = "f'{" + v + "} 5'"
        g.snips.append(txt)
        obs = rng.choice(["m 5", "a 5", "z 5"])
        op = rng.choice(["<=", ">="])
        body = f"def test_a():\n    R = {obs!r} {op} snapshot({txt})\n"
        allowed = set()
    elif kind == "star_nested":
        # a star-expression BELOW the compared container (inside an element, a dict value, a constructor argument, inside Is(...)): only the
        # container that holds it is frozen, the managed siblings next to that container are still repaired
        b = rng.choice([1, 2, 3, 4, 6, 7, 8, 9])          # not 5: the default of DC.b, which the generated code leaves out
        shape, frozen_txt = rng.choice([
            ("{{'rows': {fz}, 'count': {x}}}", "[*EXTRA, 7]"), ("[{fz}, {x}]", "[*EXTRA, 7]"), ("({fz}, {x})", "(*EXTRA, 7)"),
            ("DC(a={fz}, b={x})", "[*EXTRA, 7]"), ("[{fz}, {x}]", "{**BASE, 'k': 7}"), ("[{fz}, {x}]", "Is(max(*VALS))"), ("{{'m': {fz}, 'count': {x}}}", "Is(max(*VALS))")])
        old = shape.format(fz=frozen_txt, x=render_atom(0, True))
        new = shape.format(fz=frozen_txt.replace("Is(max(*VALS))", "max(*VALS)"), x=b)
        body = f"EXTRA = [1]\nBASE = {{'z': 0}}\nVALS = [3, 8]\n\n\ndef test_a():\n    R = {new} == snapshot({old})\n"
        g.snips.append(frozen_txt)
        allowed = set()
        expect_fixed = shape.format(fz=frozen_txt, x=b)
    elif kind == "in_star":
        # a list holding a star-expression used with `in`: frozen as a whole (elements and nodes cannot be paired), whatever is tested
        tested = rng.sample([1, 2, 3, 5, 77], rng.randint(1, 3))
        lines = "".join(f"    R.append({t} in s)\n" for t in tested)
        txt = rng.choice(["[*EXTRA, 3]", "[3, *EXTRA]", "[*EXTRA]"])
        body = f"EXTRA = [1, 2]\nR = []\n\n\ndef test_a():\n    s = snapshot({txt})\n{lines}"
        g.snips.append(txt)
        allowed = set()
    elif kind == "star_loop":
        # a container holding a star-expression evaluated several times (loop, parametrised test): the values still agree, nothing raises
        txt, val = rng.choice([("[*EXTRA, 7]", "[1, 2, 7]"), ("(*EXTRA, 7)", "(1, 2, 7)"), ("{**BASE, 'k': 7}", "{'z': 0, 'y': 1, 'k': 7}"), ("[0, [*EXTRA, 7]]", "[0, [1, 2, 7]]"),
                               ("DC(a=[*EXTRA, 7])", "DC(a=[1, 2, 7])"), ("{'m': (*EXTRA,)}", "{'m': (1, 2)}")])
        body = f"EXTRA = [1, 2]\nBASE = {{'z': 0, 'y': 1}}\n\n\ndef test_a():\n    for i in range({rng.randint(2, 3)}):\n        assert {val} == snapshot({txt})\n"
        g.snips.append(txt)
        allowed = set()
    elif kind == "equal_other_spelling":
        # the value is equal, but the hand-written display is not of the observed type (OrderedDict vs dict display, list subclass vs list display):
        # only update could apply, and it must not touch the user-controlled part
        a, b = rng.randint(0, 9), rng.randint(0, 9)
        u = g.unmanaged(("int", a))
        while u.startswith("snapshot(") or u.startswith("AnyValue"):
            g.snips.pop()
            u = g.unmanaged(("int", a))
        # (an Is() handed to some function - dict(a=Is(x)), list((Is(x), 1)) - is NOT covered: the pinned suite demands that update replaces such an opaque
        # expression as a whole: tests/adapter/test_change_types.py [F.make2(Is(5))-F(i=5)])
        new, old = rng.choice([("OrderedDict(a={a}, b={b})", "{{'a': {u}, 'b': {b}}}"), ("LS([{a}, {b}])", "[{u}, {b}]"), ("LS([0, [{a}, {b}]])", "[0, [{u}, {b}]]"),
                               ("{{'k': OrderedDict(a={a}, b={b})}}", "{{'k': {{'a': {u}, 'b': {b}}}}}")])
        body = ("from collections import OrderedDict\n\n\nclass LS(list):\n    pass\n\n\n"
                f"def test_a():\n    R = {new.format(a=a, b=b)} == snapshot({old.format(u=u, b=render_atom(b, False))})\n")
        allowed = set()
    elif kind == "call_hidden_kw":
        # a user-controlled keyword argument of a field the adapter does not describe (repr=False) or that now holds the default (f-string): kept verbatim
        which = rng.choice(["default_fstring", "default_is"])      # (fields with repr=False are outside the documented usage: the adapters cannot write them)
        cls = "from dataclasses import field\n\n\n@dataclass\nclass HD:\n    a: int\n    b: str = ''\n    hidden: int = field(default=0, repr=False)\n\n\n"
        a_old, a_new = rng.choice([(1, 2), (1, 1)])
        if which == "hidden_is":
            body = cls + f"SEC = 5\n\n\ndef test_a():\n    R = HD({a_new}, hidden=5) == snapshot(HD(a={a_old}, hidden=Is(SEC)))\n"
            g.snips.append("Is(SEC)")
        elif which == "default_fstring":
            body = cls + f"EMPTY = ''\n\n\ndef test_a():\n    R = HD({a_new}) == snapshot(HD(a={a_old}, b=f'{{EMPTY}}'))\n"
            g.snips.append("f'{EMPTY}'")
        else:
            body = cls + f"EMPTY = ''\n\n\ndef test_a():\n    R = HD({a_new}) == snapshot(HD(a={a_old}, b=Is(EMPTY)))\n"
            g.snips.append("Is(EMPTY)")
        allowed = set()
    elif kind == "cond_inner":
        # documented "conditional snapshots": the outer snapshot is evaluated several times and the condition selects another nested snapshot() each time;
        # every nested snapshot is the user's expression and records only what IT is compared with
        order = rng.choice([(1, 2), (2, 1), (1, 2, 1, 2), (2, 2, 1)])
        empty = rng.random() < 0.4
        a, b = ("", "") if empty else ("'int'", "'str'")
        cond = f"snapshot({a}) if version < 2 else snapshot({b})"
        new_shape, old_shape = rng.choice([("{{'type': {t}, 'v': version}}", "{{'type': {c}, 'v': Is(version)}}"), ("[{t}, version, 3]", "[{c}, Is(version), 3]"),
                                           ("DC(a={t}, b=version)", "DC(a={c}, b=Is(version))"), ("[[{t}], 0]", "[[{c}], 0]")])
        body = (f"def test_a():\n    for version in {order!r}:\n        R = {new_shape.format(t='TYPES[version]')} == snapshot({old_shape.format(c=cond)})\n"
                + ("" if empty else "        assert R\n"))
        body = "TYPES = {1: 'int', 2: 'str'}\n\n\n" + body
        g.snips += ["Is(version)"] if "Is(version)" in old_shape else []
        g.snips += [] if empty else ["snapshot('int')", "snapshot('str')"]
        allowed = set()
        cond_inner = {"empty": empty}
    elif kind == "in_nonlist_unm":
        # `in` snapshots whose previous value is no list display (tuple, dict) and holds user-controlled members: it can only be replaced as a whole, so it is left alone
        old = rng.choice(["(Is(X), 2)", "(1, Is(X))", "(f'{S}', 2)", "(2, f'{S}')", "((Is(X), 0), 2)", "{Is(X): 0, 2: 0}"])
        tested = rng.choice(["5", "2", "X", "5, 2"])
        body = f"X = 1\nS = 'a'\n\n\ndef test_a():\n    for v in ({tested},):\n        R = v in snapshot({old})\n"
        g.snips.append("Is(X)" if "Is(X)" in old else "f'{S}'")
        allowed = set()
    elif kind == "leaf_call_pos_unm":
        # a constructor call with POSITIONAL arguments holding Is() / an inner snapshot, handled as a whole (member of an `in` list, bound): it stays the user's
        arg = rng.choice(["Is(X)", "snapshot(1)"])
        left, op, right = rng.choice([("VER(1, 3)", "in", "[VER({a}, 0x3), 0+1]"), ("[VER(1, 3)]", "<=", "[VER({a}, 0x3)]"), ("[VER(1, 3)]", ">=", "[VER({a}, 0x3)]"),
                                      ("VER(1, 3)", "in", "[VER({a}, minor=0x3)]"), ("VER(1, 3)", "in", "[[VER({a}, 0x3)], VER({a}, 0x3)]")])
        body = ("from collections import namedtuple\nVER = namedtuple('VER', 'major minor')\nX = 1\n\n\ndef test_a():\n    R = "
                + f"{left} {op} snapshot({right.format(a=arg)})\n")
        g.snips.append(arg)
        allowed = {"trim"} if op == "in" else set()      # a member that was not tested is removed as a whole by trim
    elif kind == "set_star":
        # a SET display holding a star-expression is a container holding a star-expression: never altered, equal or not, alone or inside other containers
        left, right = rng.choice([("{1, 2}", "{*S, 0x2}"), ("{1, 3}", "{*S, 2}"), ("[{1, 2}, 5]", "[{*S, 0x2}, 4]"), ("{'k': {1, 2}}", "{'k': {*S, 0x2}}"), ("DC(a={1, 2}, b=0)", "DC(a={*S, 0x2}, b=1)")])
        op = rng.choice(["==", "==", "in", "<="])
        if op == "in":
            right = "[" + right + ", 0+1]"
        elif op == "<=":
            left, right = "[" + left + "]", "[" + right + "]"
        body = f"S = {{1}}\n\n\ndef test_a():\n    R = {left} {op} snapshot({right})\n"
        g.snips.append("*S")
        allowed = {"trim"} if op == "in" else set()      # a member that was not tested is removed as a whole by trim
    elif kind == "bound_star":
        # a bound is replaced as a whole when it is fixed or trimmed: a bound holding a star-expression (in a list, a set, a nested container) is left alone
        left, right = rng.choice([("[1, 3]", "[*L, 2]"), ("[1, 1]", "[*L, 2]"), ("[{1, 3}]", "[{*S, 2}]"), ("[[1, 3]]", "[[*L, 4]]"), ("[[1, 5], 0]", "[[*L, 4], 0]"),
                                  ("(1, [1, 9])", "(1, [*L, 2])"), ("[1, 2]", "[*L, 0x2]")])
        op = rng.choice(["<=", ">="])
        body = f"S = {{1}}\nL = [1]\n\n\ndef test_a():\n    R = {left} {op} snapshot({right})\n"
        g.snips.append("*S" if "*S" in right else "*L")
        allowed = set()
    elif kind == "leaf_fkey":
        # an f-string as KEY of a dict that is handled as a whole (member of an `in` / <= list): the key is the user's, the leaf is not rewritten
        form = rng.choice(["[{{{k}: 1}}] <= snapshot([{{{k}: 1+0}}])", "{{{k}: 1}} in snapshot([{{{k}: 1+0}}, 0+1])", "[{{{k}: 1}}] >= snapshot([{{{k}: 1+0}}])",
                           "{{{k}: 1}} == snapshot({{{k}: 1+0}})", "[{{'a': {{{k}: 1}}}}] <= snapshot([{{'a': {{{k}: 0+1}}}}])"])
        body = "S = 'a'\n\n\ndef test_a():\n    R = " + form.format(k="f'k{S}'") + "\n"
        g.snips.append("f'k{S}'")
        allowed = set()
    elif kind == "never_factory":
        # a never-compared snapshot whose argument calls a function that is NOT the constructor of the value it returns: its arguments are no fields,
        # nothing in the call is inline-snapshot's to rewrite (the call as a whole is the user's)
        txt = rng.choice(["make(a=1)", "make(1+0)", "[make(a=1), 0+2]", "{'k': make(a=0+1)}", "DC.make(a=1)", "make_dc(a=[1+1], b=2)", "double(a=1, b=2)", "[double(a=1+0)]"])
        body = ("def make(a):\n    return DC(a=a * 2)\n\n\ndef make_dc(a, b):\n    return DC(a=b, b=a)\n\n\nDC.make = staticmethod(make)\n\n\n"
                "@dataclass\nclass Scale:\n    factor: int\n\n    def __call__(self, a, b=5):\n        return DC(a=a * self.factor, b=b * self.factor)\n\n\ndouble = Scale(2)      # a callable dataclass INSTANCE: no constructor\n\n\n"
                f"S = snapshot({txt})\n\n\ndef test_a():\n    pass\n")
        import re as _re
        g.snips += _re.findall(r"(?:DC\.)?make(?:_dc)?\([^()]*\)", txt)
        allowed = set()
    elif kind == "fstring_nofield":
        # f-strings without replacement fields (f'ready', f'{{}}') at any depth: they are f-strings all the same and stay the user's, equal or not
        txt = rng.choice(["f'ready'", "f'{{}}'", 'f"it\'s"', "f'a' f'b'"])
        cur = eval(txt)
        obs = rng.choice([cur, cur, "other"])
        shape = rng.choice(["{fs}", "[{fs}, {x}]", "({x}, {fs})", "{{'k': {fs}, 'n': {x}}}", "DC(a={fs}, b={x})", "[0, [{fs}]]"])
        xo, xn = render_atom(3, False), rng.choice([3, 4])
        body = f"def test_a():\n    R = {shape.format(fs=repr(obs), x=xn)} == snapshot({shape.format(fs=txt, x=xo)})\n"
        g.snips.append(txt)
        allowed = set()
    elif kind == "inner_field":
        # nested snapshot() calls as values of fields that have a default (plain, factory, factory that takes self): each is an independent snapshot that
        # records what IT is compared with - never the default of the field, never a value computed by the parent
        cls_kind = rng.choice(["dataclass", "attrs_factory", "attrs_takes_self", "attrs_plain", "namedtuple"])
        defs = {
            "dataclass": "from dataclasses import field\n\n\n@dataclass\nclass JB:\n    name: str\n    tags: list = field(default_factory=list)\n    n: int = 0\n",
            "attrs_factory": "import attrs\n\n\n@attrs.define\nclass JB:\n    name: str\n    tags: list = attrs.field(factory=list)\n    n: int = 0\n",
            "attrs_takes_self": "import attrs\n\n\n@attrs.define\nclass JB:\n    name: str\n    tags: list = attrs.Factory(lambda self: [self.name.upper()], takes_self=True)\n    n: int = 0\n",
            "attrs_plain": "import attrs\n\n\n@attrs.define\nclass JB:\n    name: str\n    tags: object = None\n    n: int = 0\n",
            "namedtuple": "from typing import NamedTuple\n\n\nclass JB(NamedTuple):\n    name: str\n    tags: object = None\n    n: int = 0\n",
        }
        name_old, name_new = rng.choice([("deploy", "deploy"), ("deploy", "build")])
        tags_new = rng.choice([["slow"], ["slow", "nightly"], []])
        n_new = rng.choice([3, 0])
        tags_old = rng.choice(["", "['fast']", repr(tags_new)])
        n_old = rng.choice(["", "1", repr(n_new)])
        body = (defs[cls_kind] + f"\n\ndef test_a():\n    R = JB({name_new!r}, tags={tags_new!r}, n={n_new}) == "
                f"snapshot(JB(name={name_old!r}, tags=snapshot({tags_old}), n=snapshot({n_old})))\n")
        allowed = set()
        inner = {"tags": (tags_old, tags_new), "n": (n_old, n_new)}
    elif kind == "getitem_star":
        # a dict display holding a star-expression, used with [key]
        base = rng.choice(["{}", "{'z': 0}", "{'z': 0, 'y': 1}", "{'z': 0, 'y': 1, 'x': 2}"])
        val = rng.randint(0, 9)
        cur = rng.choice([val, val + 1])
        body = f"BASE = {base}\n\n\ndef test_a():\n    s = snapshot({{**BASE, 'k': {cur}}})\n    R = s['k'] == {val}\n"
        g.snips.append("**BASE")
        allowed = set()
    else:
        n = rng.randint(2, 3)
        other = rng.choice(["1+1", "2", "'x'", "Is(K)"])
        body = (f"K = 5\n\n\ndef test_a():\n    for i in range({n}):\n        s = snapshot({{'a': Is(i), 'b': {other}}})\n"
                f"        assert s['a'] == i\n")
        g.snips.append("Is(i)")
        if other == "Is(K)":
            g.snips.append("Is(K)")
        allowed = {"trim"}
    varlines = "".join(f"{n} = {v}\n" for n, v in g.vars)
    out = {"source": HEADER + varlines + "\n" + body, "snips": g.snips, "flags": flags, "usage": kind, "allowed": sorted(allowed)}
    if kind == "star_nested":
        out["expect_fixed"] = expect_fixed
    if kind == "inner_field":
        out["inner"] = inner
    if kind == "cond_inner":
        out["cond_inner"] = cond_inner
    return out


def first_snapshot_arg(src):
    tree = ast.parse(src)
    calls = [n for n in ast.walk(tree) if isinstance(n, ast.Call) and isinstance(n.func, ast.Name) and n.func.id == "snapshot"]
    calls.sort(key=lambda n: (n.lineno, n.col_offset))
    c = calls[0]
    return ast.get_source_segment(src, c.args[0]) if c.args else ""


def run_usage(case):
    r = driver.run_inproc({"test_a.py": case["source"]}, case["flags"], block_black=True)
    out = {"session_exc": r["session_exc"], "module_exc": r["module_exc"], "tests": [(t[1], t[2][:300]) for t in r["tests"]]}
    after = r["files"]["test_a.py"].decode("utf-8", "replace")
    out["after"] = after
    try:
        out["arg"] = first_snapshot_arg(after)
        out["old"] = first_snapshot_arg(case["source"])
    except Exception as e:  # noqa
        out["error"] = f"{type(e).__name__}: {e}"
    return out


def judge_usage(case, o):
    if o["module_exc"]:
        return f"module raised {o['module_exc']}"
    if o["session_exc"]:
        return f"session phase raised {o['session_exc']}"
    if "error" in o:
        return f"rewritten file unusable: {o['error']}"
    if case.get("cond_inner"):
        F0 = set(case["flags"])
        if not case["cond_inner"]["empty"]:
            bad = [t for t in o["tests"] if t[1] != "ok"]
            if bad:
                return f"conditional nested snapshots that hold the right values, evaluated in a loop, make the test fail: {bad[0][1]}"
        else:
            try:
                conds = [n for n in ast.walk(ast.parse(o["arg"], mode="eval")) if isinstance(n, ast.IfExp)]
                got = [ast.literal_eval(x.args[0]) if x.args else None for x in (conds[0].body, conds[0].orelse)]
            except Exception as e:  # noqa
                return f"rewritten argument unusable: {e}: {o['arg']}"
            want = ["int", "str"] if "create" in F0 else [None, None]
            if got != want:
                return f"empty conditional nested snapshots compared with 'int' / 'str' in a loop hold {got} after a run with {sorted(F0)}, expected {want}: {o['old']} -> {o['arg']}"
    if case["usage"] in ("getitem_loop", "star_loop"):
        bad = [t for t in o["tests"] if t[1] != "ok"]
        if bad:
            what = "a sub-snapshot holding Is(i)" if case["usage"] == "getitem_loop" else "a snapshot holding a star-expression whose value agrees"
            return f"{what}, evaluated in a loop, makes the test fail: {bad[0][1]}"
    F = set(case["flags"])
    if case.get("inner"):
        try:
            call = ast.parse(o["arg"], mode="eval").body
            got = {kw.arg: kw.value for kw in call.keywords}
        except Exception as e:  # noqa
            return f"rewritten argument unusable: {e}: {o['arg']}"
        for fld, (old_txt, new_val) in case["inner"].items():
            node = got.get(fld)
            if not (isinstance(node, ast.Call) and isinstance(node.func, ast.Name) and node.func.id == "snapshot"):
                return f"the nested snapshot() of field {fld} was edited through its parent: {o['old']} -> {o['arg']}"
            if not node.args:
                if old_txt:
                    return f"the nested snapshot of field {fld} lost its value: {o['old']} -> {o['arg']}"
                continue
            val = ast.literal_eval(node.args[0])
            if not ((old_txt and val == ast.literal_eval(old_txt)) or val == new_val):
                return (f"the nested snapshot of field {fld} holds {val!r}: neither its previous value ({old_txt or 'empty'}) nor the value it was compared with ({new_val!r}) "
                        f"(flags {sorted(F)}): {o['old']} -> {o['arg']}")
    if case.get("expect_fixed") and "fix" in F:
        try:
            same = ast.dump(ast.parse(o["arg"], mode="eval")) == ast.dump(ast.parse(case["expect_fixed"], mode="eval"))
        except SyntaxError:
            same = False
        if not same:
            return (f"a star-expression stands below the compared container: the managed sibling next to the container that holds it was not repaired by {sorted(F)} "
                    f"(or the frozen container was rewritten): {o['old']} -> {o['arg']}, expected {case['expect_fixed']}")
    for s in case["snips"]:
        before, after = count_occ(o["old"], s), count_occ(o["arg"], s)
        if after > before:
            return f"user-controlled expression {s} was duplicated ({case['usage']})"
        if after < before and not (F & set(case["allowed"])):
            return f"user-controlled expression {s} was rewritten or removed by {sorted(F)} in a snapshot used as `{case['usage']}`: {o['old']} -> {o['arg']}"
    return None


# ---- flat sequences with Is() elements vs Model/Unmanaged.v
def gen_flat(rng):
    n = rng.choice([1, 2, 3, 4, 5])
    old = []
    for i in range(n):
        old.append({"val": rng.randrange(5), "canon": rng.random() < 0.6, "unm": rng.random() < 0.4, "id": i})
    new = [o["val"] for o in old]
    for _ in range(rng.choice([0, 1, 1, 2])):
        k = rng.random()
        if k < 0.35 and new:
            del new[rng.randrange(len(new))]
        elif k < 0.7:
            new.insert(rng.randint(0, len(new)), rng.randrange(5))
        elif new:
            new[rng.randrange(len(new))] = rng.randrange(5)
    return {"old": old, "new": new, "flags": tuple(c for c in CATS if rng.random() < 0.5)}


def render_flat(c):
    vs = "".join(f"W{o['id']} = {o['val']}\n" for o in c["old"] if o["unm"])
    elts = [f"Is(W{o['id']})" if o["unm"] else render_atom(o["val"], o["canon"]) for o in c["old"]]
    return HEADER + vs + f"\n\ndef test_a():\n    assert {c['new']!r} == snapshot([{', '.join(elts)}])\n"


def run_flat(c):
    r = driver.run_inproc({"test_a.py": render_flat(c)}, c["flags"], block_black=True)
    after = r["files"]["test_a.py"].decode()
    out = {"session_exc": r["session_exc"], "after": after}
    try:
        tree = ast.parse(after)
        f = [n for n in tree.body if isinstance(n, ast.FunctionDef)][0]
        call = [n for n in ast.walk(f) if isinstance(n, ast.Call) and isinstance(n.func, ast.Name) and n.func.id == "snapshot"][0]
        items = []
        for e in call.args[0].elts:
            seg = ast.get_source_segment(after, e)
            m = re.fullmatch(r"Is\(W(\d+)\)", seg)
            if m:
                items.append(("keep_unm", int(m.group(1))))
            else:
                v = eval(seg)
                items.append(("val", v, seg == repr(v)))
        out["items"] = items
    except Exception as e:  # noqa
        out["error"] = f"{type(e).__name__}: {e}"
    return out


def g_flat(c, o):
    old = g_list(c["old"], lambda x: "{| u_val := %s; u_canon := %s; u_unmanaged := %s; u_id := %s |}" % (g_Z(x["val"]), g_bool(x["canon"]), g_bool(x["unm"]), g_nat(x["id"])))
    obs = g_list(o["items"], lambda it: f"(OUnm {g_nat(it[1])})" if it[0] == "keep_unm" else f"(OVal {g_Z(it[1])} {g_bool(it[2])})")
    return g_pair(g_flags(c["flags"]), old, g_list(c["new"], g_Z), obs)


def run(ctx: Ctx):
    ctx.coverage["rule"] = (
        "A: flat list snapshots mixing managed leaves and Is(variable) elements x edited observed values x flag sets: resulting elements vs Model/Unmanaged.v in Coq. "
        "B: == snapshots built from nested lists, tuples, dicts and dataclass calls (depth <= 3) with user-controlled parts at random positions: Is(var), f-strings, inner "
        "snapshot(), a declare_unmanaged class (stands in for dirty-equals, which is not installed), star-expressions; element inserted / deleted / changed around them; "
        "unmanaged parts agreeing or disagreeing with the observation; all approved sets: every user-controlled text occurs verbatim as often as before, or vanishes (only with "
        "fix approved); containers with star-expressions are not rewritten; with agreeing parts and create,fix the managed siblings are repaired (test passes disabled). "
        "C: the same kinds of user-controlled parts inside snapshots that are never compared (module level), used with `in`, or used as sub-snapshots `s[k]` in a loop "
        "(re-evaluation): texts survive every approved set (a never-tested `in` member may be trimmed as a whole) and the loop passes. "
        "D: nested lists / tuples (depth <= 3) holding Is(variable) leaves at any depth x edited observed values x subsets of {fix, update}: the rewritten argument vs "
        "Model/TreeAssign.v in Coq; remaining user-controlled parts are a subsequence of the old ones, none disappears without fix. "
        "non-trivial = at least one user-controlled part and one managed difference")
    proof_step(ctx)
    n = 400 if not ctx.thorough else 4000
    flats = [gen_flat(ctx.rng) for _ in range(n)]
    fo = pmap(run_flat, flats, chunksize=8)
    terms, idx = [], []
    for i, (c, o) in enumerate(zip(flats, fo)):
        ctx.count(("flat", repr(c)), any(x["unm"] for x in c["old"]) and c["new"] != [x["val"] for x in c["old"]])
        if o["session_exc"] or "error" in o:
            ctx.report(f"flat case failed: {o.get('session_exc') or o.get('error')}", {"kind": "flat", "case": c, "after": o.get("after")})
            continue
        terms.append(g_flat(c, o))
        idx.append(i)
    bad = coq_eval_shards(ctx, "unmanaged", "Model.SnapOps Model.Unmanaged Corr.UnmanagedCorr", "case", terms, "mismatches")
    ctx.coverage["traces_validated_against_impl"] += len(terms)
    ctx.coverage["correspondence"]["unmanaged_flat"] = {"cases": len(terms), "mismatches": len(bad)}
    for j in bad[:10]:
        c, o = flats[idx[j]], fo[idx[j]]
        ctx.report(f"Model/Unmanaged.v and implementation differ: {c} -> {o['items']}", {"kind": "flat", "case": c, "after": o["after"]}, no_input=True, kind="correspondence")
    # B
    m = 500 if not ctx.thorough else 5000
    cases = [gen_case(ctx.rng, i) for i in range(m)]
    outs = pmap(run_case, cases, chunksize=8)
    for c, o in zip(cases, outs):
        ctx.count(("case", c["source"], c["flags"]), bool(c["snips"] or c["frozen"]))
        ctx.dist("B.flags=" + ",".join(c["flags"]))
        ctx.dist("B.unmanaged_parts=%d" % min(len(c["snips"]), 5))
        ctx.dist("B.star=%s" % bool(c["frozen"]))
        if o["module_exc"]:
            ctx.report(f"generated module is broken (harness): {o['module_exc']}", {"kind": "case", "source": c["source"]}, no_input=True, kind="correspondence")
            continue
        why = judge(c, o)
        if why:
            ctx.report("C10 oracle: " + why, {"kind": "case", "source": c["source"], "flags": c["flags"], "after_arg": o.get("arg"), "case": {k: c[k] for k in ("old", "snips", "frozen", "agree")}},
                       tag=classify(c, o))
    ctx.coverage["oracle"]["cases"] = m
    ctx.sample({"test": cases[0]["source"].split("def test_a")[1], "unmanaged": cases[0]["snips"], "after_arg": outs[0].get("arg")})
    # C
    mu = 384 if not ctx.thorough else 3840
    ucases = [gen_usage(ctx.rng, i) for i in range(mu)]
    uouts = pmap(run_usage, ucases, chunksize=8)
    for c, o in zip(ucases, uouts):
        ctx.count(("usage", c["source"], c["flags"]), bool(c["snips"]))
        ctx.dist("C.usage=" + c["usage"])
        why = judge_usage(c, o)
        if why:
            ctx.report("C10 oracle: " + why, {"kind": "usage", "case": c, "after_arg": o.get("arg")})
    ctx.coverage["oracle"]["usage_cases"] = mu
    # D: nested lists / tuples with Is(...) leaves at any depth vs Model/TreeAssign.v
    from .. import treeassign as ta
    nd = 400 if not ctx.thorough else 4000
    ta.UNM[0] = 0.4
    try:
        tcases = [ta.gen_case(ctx.rng) for _ in range(nd)]
    finally:
        ta.UNM[0] = 0.0
    touts = pmap(ta.run_case, tcases, chunksize=8)
    tterms, tidx = [], []
    for i, (c, o) in enumerate(zip(tcases, touts)):
        ctx.count(("tree", repr(c)), bool(ta.unms(c["tree"])) and ta.tree_value(c["tree"]) != c["new"])
        ctx.dist("D.unmanaged_leaves=%d" % min(len(ta.unms(c["tree"])), 4))
        if o["session_exc"] or "error" in o:
            ctx.report(f"nested == snapshot with Is() leaves: run failed: {o['session_exc'] or o.get('error')}", {"kind": "tree", "case": dict(c, new_repr=repr(c["new"])), "source": o["source"]})
            continue
        why = ta.oracle(c, o)
        if why:
            ctx.report("C10 oracle (nested container): " + why, {"kind": "tree", "case": dict(c, new_repr=repr(c["new"])), "source": o["source"], "after_arg": o["arg"]})
            continue
        tterms.append(ta.g_case(c, o))
        tidx.append(i)
    tbad = coq_eval_shards(ctx, "treeassign", "Model.SnapOps Model.TreeAssign Corr.TreeAssignCorr", "case", tterms, "mismatches")
    ctx.coverage["traces_validated_against_impl"] += len(tterms)
    ctx.coverage["correspondence"]["nested_assign_with_unmanaged_leaves"] = {"cases": len(tterms), "mismatches": len(tbad)}
    for j in tbad[:10]:
        c, o = tcases[tidx[j]], touts[tidx[j]]
        ctx.report(f"Model/TreeAssign.v and implementation differ (oracle silent): {ta.render_tree(c['tree'])} observed {c['new']!r} flags {c['flags']} -> {o['arg']}",
                   {"kind": "tree", "case": dict(c, new_repr=repr(c["new"])), "source": o["source"]}, no_input=True, kind="correspondence")
    # constructor calls whose arguments hold Is(...) parts (also as a whole keyword argument) vs Model/CallAssign.v
    from .. import callassign as ca
    ca.UNM_CHOICES[0] = [0.3, 0.5]
    try:
        ca.check_part(ctx, 200 if not ctx.thorough else 3000, "C10", positional=False)
    finally:
        ca.UNM_CHOICES[0] = [0, 0, 0.25]
    # dict displays whose values hold Is(...) parts vs Model/DictAssign.v
    from .. import dictassign as da
    da.UNM_CHOICES[0] = [0.3, 0.5]
    try:
        da.check_part(ctx, 200 if not ctx.thorough else 3000, "C10")
    finally:
        da.UNM_CHOICES[0] = [0, 0, 0.25]
    # user-controlled parts next to managed siblings and inner snapshots, the same module under several names in one session
    from .. import twins
    TW = [c["source"] for c in cases if c["snips"] and "snapshot(" in c["old"]][:1] + [c["source"] for c in cases if c["snips"]][:2 if not ctx.thorough else 10]
    twins.check(ctx, "C10", TW)
    # Is(...) parts below lists / tuples / dict displays / constructor calls nested in each other vs Model/Nest.v
    from .. import nestassign as na
    na.check_part(ctx, 400 if not ctx.thorough else 5000, "C10", unm_choices=(0.25, 0.4))
    # `in` snapshots whose previous value is no list display, with and without user-controlled members, vs Model/CollReplace.v
    from .. import collreplace as cr
    cr.check_part(ctx, 120 if not ctx.thorough else 1600, "C10")
    # snapshots that are evaluated again: every user-controlled part holds the value of its expression at the latest evaluation (Model/ReEval.v)
    from .. import reevalcorr
    reevalcorr.check_part(ctx, 150 if not ctx.thorough else 2000, "C10")
    # snapshots that are evaluated but never compared, nested values: what update does vs Model/Undecided.v
    na.check_never(ctx, 200 if not ctx.thorough else 2500, "C10")


def replay(ctx: Ctx, data):
    if isinstance(data.get("case"), dict) and data["case"].get("kind") == "twins":
        from .. import twins
        return twins.replay(data["case"])
    if isinstance(data.get("case"), dict) and data["case"].get("kind") == "reeval-nested":
        from .. import reevalcorr
        return reevalcorr.replay_case(data["case"]["case"])
    if isinstance(data.get("case"), dict) and data["case"].get("kind") == "collreplace":
        from .. import collreplace as cr
        return cr.replay_case(data["case"]["case"])
    if isinstance(data.get("case"), dict) and data["case"].get("kind") == "nest":
        from .. import nestassign as na
        return na.replay_case(data["case"])
    if isinstance(data.get("case"), dict) and data["case"].get("kind") == "never":
        from .. import nestassign as na
        return na.replay_never(data["case"])
    if isinstance(data.get("case"), dict) and data["case"].get("kind") in ("dict", "dict-orders"):
        from .. import dictassign as da
        return da.replay_case(data["case"])
    if isinstance(data.get("case"), dict) and data["case"].get("kind") == "call":
        from .. import callassign as ca
        return ca.replay_case(data["case"])
    c = data["case"]
    if c.get("kind") == "case":
        case = dict(c["case"], source=c["source"], flags=tuple(c["flags"]))
        o = run_case(case)
        print(o.get("arg"))
        return judge(case, o) is None
    if c.get("kind") == "tree":
        from .. import treeassign as ta

        def tt(t):
            return tuple(t) if t[0] in ("leaf", "unm") else (t[0], [tt(x) for x in t[1]])
        case = {"tree": tt(c["case"]["tree"]), "new": eval(c["case"]["new_repr"]), "flags": tuple(c["case"]["flags"])}
        o = ta.run_case(case)
        print(o.get("arg"), o.get("error"), o.get("session_exc"))
        return not o["session_exc"] and "error" not in o and ta.oracle(case, o) is None
    if c.get("kind") == "usage":
        case = dict(c["case"], flags=tuple(c["case"]["flags"]))
        o = run_usage(case)
        print(o.get("old"), "->", o.get("arg"), o.get("tests"))
        return judge_usage(case, o) is None
    return True
