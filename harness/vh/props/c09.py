"""C09 - the order in which categories are approved does not matter."""
from __future__ import annotations

import ast
import itertools
import random

from .. import driver, proggen, snapgen
from ..core import Ctx, pmap, proof_step


def gen_prog(rng, i):
    opts = {"p_noncanon": 0.45, "p_same": 0.2, "p_missing": 0.3, "comments": (i % 2 == 0), "parens": False,
            "kinds": ["eq", "le", "ge", "in", "in", "getitem", "getitem"]}
    prog = proggen.gen_program(rng, rich=(i % 3 == 0), style="check", nsites=rng.randint(2, 5), opts=opts, layout={"per_test": 1})
    prog["setup"] = ["black", "noblack"][i % 2]
    prog["seed"] = rng.randrange(10 ** 9)
    return prog


CALL_HDR = """from dataclasses import dataclass
from inline_snapshot import snapshot
R = []


@dataclass
class A:
    a: int
    b: int = 2
    c: int = 3
    d: int = 4
    e: int = 5


"""


def gen_call_prog(rng, i):
    """constructor calls: the previous text writes some keyword arguments explicitly (some of them with the default value, which
    `update` removes, some with a wrong value), the observed object needs other arguments (which `fix` changes or adds)"""
    defaults = {"b": 2, "c": 3, "d": 4, "e": 5}
    tests = []
    for k in range(rng.randint(1, 3)):
        new = {"a": rng.randint(0, 9)}
        old = {"a": new["a"] if rng.random() < 0.6 else new["a"] + 1}
        for f, dv in defaults.items():
            if rng.random() < 0.5:
                new[f] = rng.choice([dv, dv + 10])
            r = rng.random()
            if r < 0.3:
                old[f] = dv                      # explicit default
            elif r < 0.55:
                old[f] = new.get(f, dv) if rng.random() < 0.6 else dv + 20
        oldsrc = "A(" + ", ".join(f"{f}={rng.choice([repr(v), f'{v - 1}+1'])}" for f, v in old.items()) + ")"
        newsrc = "A(" + ", ".join(f"{f}={v}" for f, v in new.items()) + ")"
        tests.append(f"def test_{k}():\n    R.append({newsrc} == snapshot({oldsrc}))\n")
    return {"source": CALL_HDR + "\n\n".join(tests), "setup": ["black", "noblack"][i % 2], "seed": rng.randrange(10 ** 9), "calls": True}


def norm_ast(src):
    return ast.dump(ast.parse(src))


def run_orders(prog):
    kw = {"block_black": True} if prog["setup"] == "noblack" else {}
    src = prog["source"]
    r0 = driver.run_inproc({"test_a.py": src}, (), **kw)
    if r0["session_exc"] or r0["module_exc"]:
        return {"error": f"{r0['session_exc'] or r0['module_exc']}"}
    P = [c for c in ("create", "fix", "trim", "update") if c in r0["reported"]]
    out = {"pending": P, "orders": 0}
    if len(P) < 2:
        return out
    together = driver.run_inproc({"test_a.py": src}, P, **kw)
    if together["session_exc"]:
        return {"error": f"all-at-once run raised {together['session_exc']}", "pending": P}
    want_src = together["files"]["test_a.py"].decode()
    try:
        want = norm_ast(want_src)
    except SyntaxError as e:
        return {"error": f"all-at-once result invalid: {e}", "pending": P}
    orders = list(itertools.permutations(P))
    if len(orders) > prog.get("max_orders", 24):
        random.Random(prog["seed"]).shuffle(orders)
        orders = orders[:prog["max_orders"]]
    for order in orders:
        cur = src.encode()
        for c in order:
            r = driver.run_inproc({"test_a.py": cur}, (c,), **kw)
            if r["session_exc"] or r["module_exc"]:
                return {"error": f"run with {c} in order {order} raised {r['session_exc'] or r['module_exc']}", "pending": P}
            cur = r["files"]["test_a.py"]
        out["orders"] += 1
        try:
            got = norm_ast(cur.decode())
        except SyntaxError as e:
            return {"diff": f"order {order} gives an invalid file: {e}", "pending": P, "order": order, "got": cur.decode(), "want": want_src}
        if got != want:
            return {"diff": f"approving {order} one at a time differs from approving {tuple(P)} together", "pending": P, "order": order, "got": cur.decode(), "want": want_src}
    return out


def classify(prog, o):
    return None


def parse_src(text):
    """the source tree (with canonicity flags) of a snapshot argument as found in a rewritten file"""
    node = ast.parse(text, mode="eval").body

    def conv(n):
        seg = ast.get_source_segment(text, n)
        if isinstance(n, ast.List):
            items = []
            for e in n.elts:
                v = eval(ast.get_source_segment(text, e))
                items.append((v, ast.get_source_segment(text, e) == repr(v)))
            return ("list", items)
        if isinstance(n, ast.Dict):
            return ("dict", [(ast.literal_eval(k), conv(v)) for k, v in zip(n.keys, n.values)])
        v = eval(seg)
        return ("atom", v, seg == repr(v))
    return conv(node)


def two_run_cases(ctx: Ctx, n):
    """single sites: run F1, then F2 on the rewritten file, and once F1 u F2: the composition law on the implementation,
    and Model/SnapOps.v correspondence of the second run from the source the first run really wrote"""
    from .. import snapcorr
    from .c05 import consistent
    from .c10 import arg_text
    rng = ctx.rng
    cases = []
    while len(cases) < n:
        c = snapgen.gen_case(rng, kinds=("min", "max", "in", "in", "dict", "eq"), allow_foreign=False)
        if consistent(c) and c["ops"]:
            c["F2"] = tuple(x for x in snapgen.CATS if rng.random() < 0.5)
            cases.append(c)
    first = snapcorr.run_cases(cases)
    second_cases, idx = [], []
    for i, (c, o) in enumerate(zip(cases, first)):
        if "error" in o or o.get("session_exc"):
            continue
        try:
            arg = arg_text(o["after"])
            old2 = parse_src(arg) if arg else None
        except Exception:  # noqa  (value outside the model universe)
            continue
        second_cases.append({"kind": c["kind"], "old": old2, "flags": c["F2"], "ops": c["ops"]})
        idx.append(i)
    second = snapcorr.run_cases(second_cases)
    bad = snapcorr.correspond(ctx, second_cases, second, name="snapops2")
    union = [dict(cases[i], flags=tuple(x for x in snapgen.CATS if x in cases[i]["flags"] or x in cases[i]["F2"])) for i in idx]
    together = snapcorr.run_cases(union)
    for k, i in enumerate(idx):
        c = cases[i]
        ctx.count(("two-run", snapcorr.case_key(c), c["F2"]), set(c["flags"]) != set(c["F2"]) and bool(c["flags"]) and bool(c["F2"]))
        o2, ou = second[k], together[k]
        if "error" in o2 or o2.get("session_exc") or "error" in ou or ou.get("session_exc"):
            ctx.report(f"second / combined run failed for {c}", {"kind": "site", "case": c})
        elif o2["value"] != ou["value"]:
            ctx.report(f"approving {c['flags']} and then {c['F2']} gives {o2['value']}, approving them together gives {ou['value']} ({c})", {"kind": "site", "case": c})
        elif k in bad:
            ctx.report(f"Model/SnapOps.v and implementation differ on the second run of {c} from {second_cases[k]['old']}", {"kind": "site", "case": c}, no_input=True, kind="correspondence")
    ctx.coverage["correspondence"]["second_runs"] = {"cases": len(idx), "mismatches": len(bad)}


# ----------------------------------------------------------------------------- C: nested == snapshots: two runs vs one (Model/TreeAssign.v: tree_two_runs_compose)
def run_tree_orders(c):
    """fix and update approved one after the other (both orders) and together, on a nested list / tuple snapshot"""
    from .. import treeassign as ta
    src = ta.HDR + f"def test_a():\n    assert {c['new']!r} == snapshot({ta.render_tree(c['tree'])})\n"
    out = {}
    for name, seq in (("together", [("fix", "update")]), ("fix_update", [("fix",), ("update",)]), ("update_fix", [("update",), ("fix",)])):
        cur = src.encode()
        for fl in seq:
            r = driver.run_inproc({"test_a.py": cur}, fl, block_black=True)
            if r["session_exc"]:
                return {"error": f"{name}: {r['session_exc']}"}
            cur = r["files"]["test_a.py"]
        try:
            out[name] = norm_ast(cur.decode())
        except SyntaxError as e:
            return {"error": f"{name}: invalid file {e}"}
        out[name + "_src"] = cur.decode()
    return out


# inner snapshots (managed on their own) with a pending update inside an element that the outer snapshot replaces or deletes with fix
NESTED_CORPUS = [
    "from inline_snapshot import snapshot\n\n\ndef test_a():\n    assert {'name': 'tmp', 'mode': (420, 2)} == snapshot({'name': 'tmp', 'mode': [snapshot(0o644), 2]})\n",
    "from inline_snapshot import snapshot\n\n\ndef test_a():\n    assert [1, 3] == snapshot([1, [snapshot(0x2)], 3])\n",
    "from inline_snapshot import snapshot\n\n\ndef test_a():\n    assert [5] == snapshot([{'k': snapshot(0b11)}])\n    assert 16 == snapshot(0x10)\n",
    "from inline_snapshot import snapshot\n\n\ndef test_a():\n    assert (1, 'x') == snapshot((1, [snapshot(0o7)]))\n",
]


def run_corpus_orders(src):
    out = {}
    for name, seq in (("together", [("fix", "update")]), ("fix_update", [("fix",), ("update",)]), ("update_fix", [("update",), ("fix",)])):
        cur = src.encode()
        for fl in seq:
            r = driver.run_inproc({"test_a.py": cur}, fl, block_black=True)
            if r["session_exc"]:
                return {"error": f"{name}: {r['session_exc']}"}
            cur = r["files"]["test_a.py"]
        try:
            out[name] = norm_ast(cur.decode())
        except SyntaxError as e:
            return {"error": f"{name}: invalid file {e}"}
        out[name + "_src"] = cur.decode()
    return out


# ----------------------------------------------------------------------------- D: real sessions over several files
# every file has a create; fix, trim and update each touch exactly one (different) file: whatever order the session registers the files in,
# at most one of the three later categories has its file last
SESSION_FILES = {
    "test_a.py": "from inline_snapshot import snapshot\nR = []\n\n\ndef test_a1():\n    R.append(1 == snapshot())\n\n\ndef test_a2():\n    R.append(3 == snapshot(4))\n",
    "test_b.py": "from inline_snapshot import snapshot\nR = []\n\n\ndef test_b1():\n    R.append(2 == snapshot())\n\n\ndef test_b2():\n    R.append(5 <= snapshot(8))\n",
    "test_c.py": "from inline_snapshot import snapshot\nR = []\n\n\ndef test_c1():\n    R.append(9 == snapshot())\n\n\ndef test_c2():\n    R.append('x' == snapshot('''x'''))\n",
}


# one file in which create needs the HasRepr import and fix the external import (finding F-49: the import lines end up in run order)
IMPORT_FILES = {
    "test_i.py": "from inline_snapshot import snapshot, outsource\n\n\nclass W:\n    def __repr__(self):\n        return '<W>'\n\n    def __eq__(self, o):\n"
                 "        return True if isinstance(o, W) else NotImplemented\n\n\nR = []\n\n\ndef test_i1():\n    R.append(W() == snapshot())\n\n\n"
                 "def test_i2():\n    R.append(outsource('x' * 40) == snapshot('old'))\n",
}


# asserting tests in which an assertion with a pending fix stands in front of further uses of the same snapshot (finding F-54: a trim-only
# session stops at the failing assertion, the values used behind it count as unused)
ABORT_FILES = {
    "test_t.py": "from inline_snapshot import snapshot\n\n\ndef test_d():\n    s = snapshot({'a': 1, 'c': 5})\n    assert s['a'] == 2\n    assert s['c'] == 5\n\n\n"
                 "def test_l():\n    s = snapshot([4, 5])\n    assert 6 in s\n    assert 5 in s\n",
}


def run_session_orders(_, files=None, P=("create", "fix", "trim", "update"), norders=7):
    """the categories pending in a project of three files approved together in one real pytest session vs one session per
    category in every order"""
    import shutil
    SESSION_FILES = files or globals()["SESSION_FILES"]

    def sessions(seq):
        d = driver.scratch_dir()
        try:
            driver.write_project(d, SESSION_FILES)
            for fl in seq:
                r = driver.run_pytest(d, ["--inline-snapshot=" + ",".join(fl)])
                if r["rc"] not in (0, 1):
                    return {"error": f"session {fl}: exit status {r['rc']}: {(r['stdout'] + r['stderr'])[-400:]}"}
            return {n: ast.dump(ast.parse((d / n).read_text())) for n in SESSION_FILES}
        finally:
            shutil.rmtree(d, ignore_errors=True)
    orders = [tuple(o) for o in itertools.permutations(P)]
    random.Random(7).shuffle(orders)
    seqs = [[P]] + [[(c,) for c in o] for o in orders[:norders]]
    from ..core import tmap
    res = tmap(sessions, seqs)
    return {"together": res[0], "orders": list(zip(orders[:norders], res[1:]))}


def _without_imports(dump):
    """ast.dump of a module with the `from inline_snapshot import ...` statements removed"""
    import re
    return re.sub(r"ImportFrom\(module='inline_snapshot', names=\[alias\(name='(HasRepr|external)'\)\], level=0\),? ?", "", dump)


def run(ctx: Ctx):
    ctx.coverage["rule"] = (
        "A: single call sites run with F1, then with F2 on the file the first run wrote, and once with F1 u F2: equal final values; the second run vs Model/SnapOps.v "
        "in Coq from the source really written (canonicity of every leaf read back from the file). B: programs with 2-5 snapshot sites whose comparisons are recorded, not asserted (so the observations do not depend on the approved flags), each site in its own "
        "test; P = categories pending with no flags; for every program with |P| >= 2: all |P|! orders (quick: at most 8 for |P| = 4) of single-category runs vs one run with P "
        "approved; equality of ast.dump of the final files; with and without black; plus programs of dataclass constructor calls whose previous text holds explicit default-valued "
        "keyword arguments (update removes them) next to wrong / missing ones (fix). C: nested list / tuple == snapshots: fix,update together vs fix then update vs update then fix "
        "(the composition law proved for Model/TreeAssign.v). D: real pytest sessions on a project of three test files: all pending categories in one session vs one "
        "session per category in 7 orders. C2: calls of generated dataclasses with positional and keyword arguments (often two or more positional ones): fix,update together vs update then fix vs fix then update, "
        "identical syntax tree of the final call (the composition law proved for Model/CallAssign.v, which is also compared with the code). non-trivial = |P| >= 2; distinct = distinct programs")
    proof_step(ctx)
    two_run_cases(ctx, 500 if not ctx.thorough else 5000)
    n = 150 if not ctx.thorough else 1500
    progs = [gen_prog(ctx.rng, i) for i in range(n)] + [gen_call_prog(ctx.rng, i) for i in range(n // 3)]
    for p in progs:
        p["max_orders"] = 8 if not ctx.thorough else 24
    outs = pmap(run_orders, progs, chunksize=2)
    k2 = 0
    for p, o in zip(progs, outs):
        P = o.get("pending", [])
        ctx.count(("prog", p["source"], p["setup"]), len(P) >= 2, n=max(1, o.get("orders", 0)))
        ctx.dist("pending=%d" % len(P))
        ctx.dist("pending_set=" + ",".join(P))
        k2 += len(P) >= 2
        if "error" in o:
            ctx.report("C09: " + o["error"], {"kind": "prog", "source": p["source"], "setup": p["setup"], "seed": p["seed"]}, tag=classify(p, o))
        elif "diff" in o:
            ctx.report("C09 oracle: " + o["diff"], {"kind": "prog", "source": p["source"], "setup": p["setup"], "seed": p["seed"], "order": o["order"], "got": o["got"][-1500:], "want": o["want"][-1500:]},
                       tag=classify(p, o))
    # C
    from .. import treeassign as ta
    nt = 150 if not ctx.thorough else 1500
    tcases = [ta.gen_case(ctx.rng) for _ in range(nt)]
    for c, o in zip(tcases, pmap(run_tree_orders, tcases, chunksize=4)):
        ctx.count(("tree-orders", repr(c)), ta.tree_value(c["tree"]) != c["new"])
        if "error" in o:
            ctx.report("C09 (nested snapshot): " + o["error"], {"kind": "tree", "tree": c["tree"], "new_repr": repr(c["new"])})
        elif not (o["together"] == o["fix_update"] == o["update_fix"]):
            ctx.report(f"C09 oracle: nested snapshot {ta.render_tree(c['tree'])} observed {c['new']!r}: fix,update together / fix then update / update then fix give different programs: "
                       f"{o['together_src'][-80:]!r} / {o['fix_update_src'][-80:]!r} / {o['update_fix_src'][-80:]!r}", {"kind": "tree", "tree": c["tree"], "new_repr": repr(c["new"])})
    ctx.coverage["oracle"]["nested_snapshots_three_orders"] = nt
    for src, o in zip(NESTED_CORPUS, pmap(run_corpus_orders, NESTED_CORPUS)):
        ctx.count(("nested-corpus", src), True)
        if "error" in o:
            ctx.report("C09 (inner snapshot inside a replaced element): " + o["error"], {"kind": "nested-corpus", "source": src})
        elif not (o["together"] == o["fix_update"] == o["update_fix"]):
            ctx.report(f"C09 oracle: inner snapshot inside a replaced element: fix,update together / fix then update / update then fix give different programs: "
                       f"{o['together_src'][-90:]!r} / {o['fix_update_src'][-90:]!r} / {o['update_fix_src'][-90:]!r}", {"kind": "nested-corpus", "source": src})
    # C2: constructor calls (positional and keyword arguments, keywords holding defaults): the three routes, and Model/CallAssign.v
    from .. import callassign as ca
    ca.check_orders(ctx, 150 if not ctx.thorough else 2000)
    ca.check_part(ctx, 150 if not ctx.thorough else 1500, "C09", positional=False)
    # C3: dict displays: Model/DictAssign.v and the three routes
    from .. import dictassign as da
    da.check_part(ctx, 150 if not ctx.thorough else 1500, "C09", orders=120 if not ctx.thorough else 1500)
    # D
    so = run_session_orders(None)
    ctx.count(("sessions",), True, n=8)
    if "error" in so["together"]:
        ctx.report("C09 (sessions): " + so["together"]["error"], {"kind": "sessions"})
    for order, r in so["orders"]:
        if "error" in r:
            ctx.report("C09 (sessions): " + r["error"], {"kind": "sessions"})
        elif r != so["together"]:
            diff = [n for n in r if r[n] != so["together"].get(n)]
            ctx.report(f"C09 oracle: real sessions over three files: approving {order} one session at a time differs from one session with all of them in {diff}", {"kind": "sessions", "order": order})
    ctx.coverage["oracle"]["multi_file_session_orders"] = len(so["orders"])
    # D2: both import lines needed, by different categories
    si = run_session_orders(None, IMPORT_FILES, ("create", "fix"), 2)
    ctx.count(("sessions-imports",), True, n=3)
    if "error" in si["together"]:
        ctx.report("C09 (sessions, imports): " + si["together"]["error"], {"kind": "sessions-imports"})
    for order, r in si["orders"]:
        if "error" in r:
            ctx.report("C09 (sessions, imports): " + r["error"], {"kind": "sessions-imports"})
        elif r != si["together"]:
            only_imports = all(_without_imports(r[n]) == _without_imports(si["together"][n]) for n in r)
            ctx.report(f"C09 oracle: create needs `HasRepr`, fix needs `external`: approving {order} one session at a time gives another program than one session with both "
                       f"({'the inserted import lines are in another order' if only_imports else 'more than the import lines differs'})",
                       {"kind": "sessions-imports", "order": order}, tag="F-49" if only_imports else None)
    # D3: a failing assertion in front of further uses of the snapshot, fix and trim pending
    sa = run_session_orders(None, ABORT_FILES, ("fix", "trim"), 2)
    ctx.count(("sessions-abort",), True, n=3)
    if "error" in sa["together"]:
        ctx.report("C09 (sessions, failing assertion before further uses): " + sa["together"]["error"], {"kind": "sessions-abort"})
    for order, r in sa["orders"]:
        if "error" in r:
            ctx.report("C09 (sessions, failing assertion before further uses): " + r["error"], {"kind": "sessions-abort"})
        elif r != sa["together"]:
            ctx.report(f"C09 oracle: a failing assertion stands in front of further uses of the snapshot: approving {order} one session at a time gives another program than "
                       f"one session with fix,trim", {"kind": "sessions-abort", "order": order}, tag="F-54" if tuple(order) == ("trim", "fix") else None)
    ctx.coverage["oracle"]["programs_with_two_or_more_pending_categories"] = k2
    ctx.coverage["oracle"]["orders_checked"] = sum(o.get("orders", 0) for o in outs)
    i = next((i for i, o in enumerate(outs) if len(o.get("pending", [])) >= 2), 0)
    ctx.sample({"program_tail": progs[i]["source"][-600:], "pending": outs[i].get("pending"), "orders": outs[i].get("orders")})


def replay(ctx: Ctx, data):
    c = data["case"]
    if c.get("kind") == "call-orders":
        from .. import callassign as ca
        return ca.replay_orders(c)
    if c.get("kind") == "call":
        from .. import callassign as ca
        return ca.replay_case(c)
    if c.get("kind") in ("dict", "dict-orders"):
        from .. import dictassign as da
        return da.replay_case(c)
    if c.get("kind") == "nested-corpus":
        o = run_corpus_orders(c["source"])
        print(o)
        return "error" not in o and o["together"] == o["fix_update"] == o["update_fix"]
    if c.get("kind") == "sessions-imports":
        si = run_session_orders(None, IMPORT_FILES, ("create", "fix"), 2)
        return "error" not in si["together"] and all("error" not in r and r == si["together"] for _, r in si["orders"])
    if c.get("kind") == "sessions-abort":
        sa = run_session_orders(None, ABORT_FILES, ("fix", "trim"), 2)
        return "error" not in sa["together"] and all("error" not in r and r == sa["together"] for _, r in sa["orders"])
    if c.get("kind") == "sessions":
        so = run_session_orders(None)
        return "error" not in so["together"] and all("error" not in r and r == so["together"] for _, r in so["orders"])
    if c.get("kind") == "tree":
        def tt(t):
            return tuple(t) if t[0] in ("leaf", "unm") else (t[0], [tt(x) for x in t[1]])
        o = run_tree_orders({"tree": tt(c["tree"]), "new": eval(c["new_repr"])})
        print(o)
        return "error" not in o and o["together"] == o["fix_update"] == o["update_fix"]
    o = run_orders({"source": c["source"], "setup": c["setup"], "seed": c["seed"], "max_orders": 24})
    print(o)
    return "error" not in o and "diff" not in o
