"""Correspondence of Model/Tokens.v with _utils.normalize / simple_token.__eq__ / value_to_token and SourceFile._token_of_node:
generated expressions (strings in every quote style, implicit concatenation, prefixes, escapes, containers with trailing commas,
1-tuples, comments, odd spacing) are written into a real file, located with executing / asttokens like a snapshot argument, and the
real functions are run on the node; the model is evaluated in Coq on the same token lists.  An oracle checks the second-run
statement on the real code: the code written for a value is not reported as `update` again."""
from __future__ import annotations

import ast
import re
import shutil
import tempfile
from pathlib import Path

from .core import coq_eval_shards, g_bool, g_N, g_list, g_pair, g_str, pmap

BODY = ["a", "b c", " ", "'", '"', "\\n", "\\t", "\\\\", "\\'", '\\"', "\\x41", "\\u00e9", "é", "\U0001F40D", "''", '""', "x=1", ",", ")", "\\\n", "\\r", "{", "}"]
BODY_BYTES = ["a", "b c", " ", "'", '"', "\\n", "\\t", "\\\\", "\\'", '\\"', "\\x41", "\\xff", ",", ")", "\\r"]


def gen_string(rng, allow_bytes=True, simple_only=False):
    """-> (literal text, is_bytes)"""
    is_bytes = allow_bytes and rng.random() < 0.2
    r = rng.random()
    prefix = "b" if is_bytes else ""
    if not simple_only:
        if r < 0.06:
            prefix = rng.choice(["r", "u", "R", "U"]) if not is_bytes else rng.choice(["rb", "br", "B", "Rb"])
        elif r < 0.09 and not is_bytes:
            prefix = rng.choice(["f", "F", "rf", "fr"])
    triple = (not simple_only) and rng.random() < 0.15
    q = rng.choice(["'", '"'])
    n = rng.randint(0, 5)
    body = "".join(rng.choice(BODY_BYTES if is_bytes else BODY) for _ in range(n))
    if prefix.lower() in ("f", "rf", "fr"):
        body = body.replace("{", "{{").replace("}", "}}")
    for cand_q in ([q] + [x for x in ("'", '"') if x != q]):
        quote = cand_q * 3 if triple else cand_q
        lit = prefix + quote + body + quote
        try:
            v = ast.literal_eval(lit) if "f" not in prefix.lower() else eval(lit)
        except Exception:  # noqa
            continue
        if isinstance(v, (str, bytes)) and (triple or "\n" not in lit.replace("\\\n", "")):
            return lit, is_bytes
    return prefix.replace("f", "").replace("F", "") + "'a'", is_bytes


def gen_strcat(rng):
    k = rng.choice([1, 1, 1, 2, 2, 3])
    first, is_bytes = gen_string(rng, simple_only=(k > 1 and rng.random() < 0.7))
    parts = [first]
    for _ in range(k - 1):
        for _try in range(20):
            lit, b = gen_string(rng, allow_bytes=is_bytes, simple_only=rng.random() < 0.7)
            if b == is_bytes and ("f" in lit.split(lit.lstrip("rRuUbBfF")[0])[0].lower()) is False:
                parts.append(lit)
                break
    return rng.choice([" ", "  ", ""]).join(parts) if len(parts) > 1 else parts[0]


ATOMS = ["1", "0", "-1", "0x10", "1_000", "1.5", "None", "True", "2+3", "int", "...", "1j"]


def gen_expr(rng, depth):
    r = rng.random()
    if depth <= 0 or r < 0.3:
        if rng.random() < 0.55:
            return gen_strcat(rng)
        return rng.choice(ATOMS)
    n = rng.choice([0, 1, 1, 2, 3])
    items = [gen_expr(rng, depth - 1) for _ in range(n)]
    sep = rng.choice([", ", ",", " , ", ",\n  "])
    tc = rng.choice(["", "", ",", " ,", ",\n"]) if n else ""
    cm = "  # c\n" if rng.random() < 0.05 and n else ""
    kind = rng.choice(["list", "tuple", "tuple", "set", "dict", "call"])
    if kind == "list":
        return "[" + sep.join(items) + tc + cm + "]"
    if kind == "tuple":
        if n == 1:
            tc = rng.choice([",", " ,", ",\n"])
        return "(" + sep.join(items) + tc + cm + ")"
    if kind == "set":
        hashable = [i for i in items if not i.lstrip().startswith(("[", "{"))]
        if not hashable:
            return "set()"
        return "{" + sep.join(hashable) + tc + cm + "}"
    if kind == "dict":
        keys = [rng.choice(["1", "2", "'k'", '"k2"', "'a' 'b'", "(1,)", "None"]) for _ in items]
        return "{" + sep.join(f"{k}: {v}" for k, v in zip(keys, items)) + tc + cm + "}"
    return "frozenset((" + sep.join(i for i in items if not i.lstrip().startswith(("[", "{"))) + tc + "))"


def canonical_variant(rng, value):
    """the canonical code of a value, sometimes with a harmless variation (other quotes, a trailing comma, a split string)"""
    from inline_snapshot._code_repr import code_repr
    code = code_repr(value)
    r = rng.random()
    if r < 0.5:
        return code
    if r < 0.7 and code.endswith(("]", ")", "}")) and len(code) > 2 and not code.endswith(",)") and code not in ("set()",):
        return code[:-1] + "," + code[-1]
    if r < 0.85 and "'" in code and '"' not in code and "\\" not in code:
        return code.replace("'", '"')
    return " " + code.replace(", ", " ,  ")


def gen_case(rng, i):
    for _ in range(50):
        src = gen_expr(rng, rng.choice([0, 1, 2, 2, 3]))
        try:
            v = eval(src, {})
            if rng.random() < 0.35:
                src2 = canonical_variant(rng, v)
                if eval(src2, {}) == v:
                    src = src2
            ast.parse(f"v = {src}\n")
        except Exception:  # noqa
            continue
        return src
    return "1"


UNSUP = re.compile(r"\\[0-7N]")


def string_supported(s):
    m = re.match(r"^([A-Za-z]*)('''|\"\"\"|'|\")", s)
    if not m:
        return False
    prefix, quote = m.group(1), m.group(2)
    if prefix not in ("", "b"):
        return False
    if prefix == "b" and len(quote) == 3:
        return False
    return not UNSUP.search(s)


def run_chunk(srcs):
    """one real file per chunk; every expression is located like a snapshot argument (executing.Source + asttokens)"""
    from executing import Source
    from inline_snapshot._source_file import SourceFile
    from inline_snapshot._utils import ignore_tokens, normalize, simple_token, value_to_token
    d = Path(tempfile.mkdtemp(prefix="tokens-", dir="/var/tmp"))
    out = []
    try:
        f = d / "test_tok.py"
        f.write_text("".join(f"v{i} = {s}\n" for i, s in enumerate(srcs)), "utf-8")
        source = Source.for_filename(str(f))
        sf = SourceFile(source)
        at = source.asttokens()
        for i, stmt in enumerate(source.tree.body):
            node = stmt.value
            try:
                raw = [simple_token(t.type, t.string) for t in at.get_tokens(node) if t.type not in ignore_tokens]
                value = eval(srcs[i], {})
                canon = value_to_token(value)
                obs = sf._token_of_node(node)
                leaf = obs != canon
                norm = obs != list(normalize(canon))
                # the second-run statement, on the real code: what is written for the value (tokens -> text, as _token_to_code does
                # before the formatter) is located again and compared again
                import tokenize
                text = tokenize.untokenize(canon).strip()
                again = None
                try:
                    g = d / f"again{i}.py"
                    g.write_text(f"v = {text}\n", "utf-8")
                    s2 = Source.for_filename(str(g))
                    n2 = s2.tree.body[0].value
                    o2 = SourceFile(s2)._token_of_node(n2)
                    again = {"leaf": o2 != canon, "norm": o2 != list(normalize(canon)), "text": text,
                             "trailing": any(a.string == "," and b.string in ("]", ")", "}") for a, b in zip(canon, canon[1:]))}
                except Exception as e:  # noqa
                    again = {"error": f"{type(e).__name__}: {e}", "text": text}
                out.append({"raw": [(t.type, t.string) for t in raw], "canon": [(t.type, t.string) for t in canon], "obs": [(t.type, t.string) for t in obs],
                            "leaf": leaf, "norm": norm, "again": again,
                            "supported": all(string_supported(t.string) for t in raw if t.type == 3)})
            except Exception as e:  # noqa
                out.append({"error": f"{type(e).__name__}: {e}"})
    finally:
        shutil.rmtree(d, ignore_errors=True)
    return out


def source_tables():
    """The constant tables of _utils.py read from the source text with ast (no import): the prefix tuples of normalize_strings, the closing brackets and the comma of
    skip_trailing_comma, the f-string prefixes of simple_token.__eq__.  Fail-closed: any other shape of these functions raises ValueError."""
    import inline_snapshot._utils as u
    tree = ast.parse(Path(u.__file__).read_text("utf-8"))
    funcs = {n.name: n for n in ast.walk(tree) if isinstance(n, (ast.FunctionDef, ast.ClassDef))}

    def str_tuple(node):
        if not (isinstance(node, ast.Tuple) and node.elts and all(isinstance(e, ast.Constant) and isinstance(e.value, str) for e in node.elts)):
            raise ValueError("not a tuple of string constants: " + ast.dump(node)[:200])
        return [e.value for e in node.elts]

    ns = funcs["normalize_strings"]
    sw = [n for n in ast.walk(ns) if isinstance(n, ast.Call) and isinstance(n.func, ast.Attribute) and n.func.attr == "startswith"]
    cond = [n for n in ast.walk(ns) if isinstance(n, ast.BoolOp) and isinstance(n.op, ast.And) and len(n.values) == 3]
    if len(sw) != 2 or len(cond) != 1:
        raise ValueError("normalize_strings: expected one condition `type == STRING and not startswith(triple) and startswith(simple)`")
    c = cond[0].values
    if not (isinstance(c[0], ast.Compare) and isinstance(c[1], ast.UnaryOp) and isinstance(c[1].op, ast.Not) and c[1].operand in sw and c[2] in sw and c[2] is not c[1].operand):
        raise ValueError("normalize_strings: the condition has another shape")
    q3, q1 = str_tuple(c[1].operand.args[0]), str_tuple(c[2].args[0])
    st = funcs["skip_trailing_comma"]
    cmp_ = [n for n in ast.walk(st) if isinstance(n, ast.Compare)]
    ins = [n for n in cmp_ if isinstance(n.ops[0], ast.In)]
    eqs = [n for n in cmp_ if isinstance(n.ops[0], ast.Eq) and isinstance(n.comparators[0], ast.Constant) and isinstance(n.comparators[0].value, str)]
    if len(ins) != 1 or len(eqs) != 1:
        raise ValueError("skip_trailing_comma: expected `token.string == \",\" and next_token.string in (...)`")
    closers, comma = str_tuple(ins[0].comparators[0]), [eqs[0].comparators[0].value]
    eq = [n for n in ast.walk(funcs["simple_token"]) if isinstance(n, ast.FunctionDef) and n.name == "__eq__"]
    gens = [g for n in ast.walk(eq[0]) if isinstance(n, ast.GeneratorExp) for g in n.generators if isinstance(g.iter, ast.Tuple) and all(isinstance(e, ast.Constant) for e in g.iter.elts)] if eq else []
    if len(gens) != 1:
        raise ValueError("simple_token.__eq__: expected one `for suffix in (...)`")
    fpre = str_tuple(gens[0].iter)
    return {"q3": q3, "q1": q1, "closers": closers, "comma": comma, "fprefixes": fpre}


def call_sites():
    """every comparison `<x>._token_of_node(<node>) != <rhs>` in the package, read from the source text: (file, line, rhs is `list(normalize(...))`).
    Since the repair F-94 all of them use the normalized form, the one C08_update_fixpoint_norm speaks about."""
    import inline_snapshot
    root = Path(inline_snapshot.__file__).parent
    sites = []
    for f in sorted(root.rglob("*.py")):
        try:
            tree = ast.parse(f.read_text("utf-8"))
        except SyntaxError as e:
            raise ValueError(f"{f}: {e}")
        for n in ast.walk(tree):
            if isinstance(n, ast.Compare) and isinstance(n.left, ast.Call) and isinstance(n.left.func, ast.Attribute) and n.left.func.attr == "_token_of_node":
                if len(n.ops) != 1 or not isinstance(n.ops[0], ast.NotEq):
                    raise ValueError(f"{f.name}:{n.lineno}: _token_of_node(...) is compared in another way than `!=`")
                r = n.comparators[0]

                def is_norm(x):
                    return (isinstance(x, ast.Call) and isinstance(x.func, ast.Name) and x.func.id == "list" and len(x.args) == 1 and isinstance(x.args[0], ast.Call)
                            and isinstance(x.args[0].func, ast.Name) and x.args[0].func.id == "normalize")
                normalized = is_norm(r)
                if isinstance(r, ast.Name):
                    # a local variable: normalized if every assignment to this name in the file has the normalized form
                    assigns = [a.value for a in ast.walk(tree) if isinstance(a, ast.Assign) and any(isinstance(t, ast.Name) and t.id == r.id for t in a.targets)]
                    normalized = bool(assigns) and all(is_norm(v) for v in assigns)
                sites.append((str(f.relative_to(root)), n.lineno, normalized))
            elif isinstance(n, ast.Call) and isinstance(n.func, ast.Attribute) and n.func.attr == "_token_of_node" and f.name != "_source_file.py":
                pass
    return sites


def g_toks(ts):
    return g_list(ts, lambda t: g_pair(g_N(t[0]), g_str(t[1])))


def check_part(ctx, n, label):
    from .props.c12 import nonprintable_ranges
    srcs = [gen_case(ctx.rng, i) for i in range(n)]
    # deterministic corpus: the shapes the theorems speak about
    srcs += ["{(1,)}", "(1,)", "[(1,), 2]", "'a' 'b'", "\"a\"", "'a'", "('a' \"b\",)", "[1, 2,]", "{1: 'x',}", "frozenset({(1,)})", "'it''s'", "b'a' b'b'",
             "'''a\nb'''", "'a\\nb\\nc'", "[\n 1,\n 2,\n]", "{'a' 'b': 1}", "((1,),)", "'\\''", "\"'\"", "'\"' \"'\"", "''", "'' ''", "[''  '']", "b''", "1_0", "(  )", "{ }",
             # F-08: the repr of a complex number is parenthesised and asttokens leaves the parentheses out of the node
             "1+2j", "[(1+2j)]", "-1j"]
    chunks = [srcs[i:i + 40] for i in range(0, len(srcs), 40)]
    outs = [o for ch in pmap(run_chunk, chunks) for o in ch]
    terms, idx = [], []
    nuns = nleaf = nnorm = 0
    for i, (s, o) in enumerate(zip(srcs, outs)):
        if "error" in o:
            ctx.dist("tokens.error")
            if "TypeError" in o["error"] or "SyntaxError" in o["error"]:
                continue
            ctx.report(f"{label}: the token comparison raised {o['error']} for the argument {s!r}", {"kind": "tokens", "src": s})
            continue
        ctx.count(("tokens", s), len(o["raw"]) >= 3)
        ctx.dist("tokens.update_pending=%s" % o["leaf"])
        nuns += not o["supported"]
        nleaf += o["leaf"]
        nnorm += o["norm"]
        a = o["again"]
        if "error" in a:
            ctx.report(f"{label}: the code {a['text']!r} written for the value of {s!r} can not be located / compared again: {a['error']}", {"kind": "tokens", "src": s})
            continue
        if a["norm"] or (a["leaf"] and not a["trailing"]):
            ctx.report(f"{label} oracle: the code {a['text']!r} that is written for the value of {s!r} is reported as `update` again when it is compared with the same value "
                       f"(leaf comparison: {a['leaf']}, normalized comparison: {a['norm']})", {"kind": "tokens", "src": s},
                       tag="F-08" if (a["text"].startswith("(") and a["text"].endswith(")") and "j" in a["text"]) else None)
            if not (a["text"].startswith("(") and "j" in a["text"]):
                continue
        terms.append(g_pair(g_toks(o["raw"]), g_toks(o["canon"]), g_toks(o["obs"]), g_bool(o["leaf"]), g_bool(o["norm"]), g_bool(o["supported"])))
        idx.append(i)
    nonp = nonprintable_ranges()
    pre = "Definition nonp : list (N * N) := [" + ";".join(f"({a},{b})" for a, b in nonp) + "]%N.\n"
    # the tables of the source, as they are now, against the tables the theorems speak about (evaluated in Coq; index 1000000 = the tables differ)
    try:
        tb = source_tables()
        tabs = " ".join(g_list(tb[k], g_str) for k in ("q3", "q1", "closers", "comma", "fprefixes"))
    except (ValueError, KeyError, IndexError) as e:
        tb, tabs = None, "[] [] [] [] []"
        ctx.report(f"the translator of the constant tables of _utils.py does not recognise the source any more ({e}): the theorems of Model/Tokens.v are not tied to this source",
                   {"kind": "tokens-tables"}, no_input=True, kind="correspondence")
    pre += f"Definition tabs_ok : bool := TokensCorr.tables_ok {tabs}.\nDefinition mm (l : list TokensCorr.case) : list nat := (if tabs_ok then [] else [1000000%nat]) ++ TokensCorr.mismatches nonp l.\n"
    bad = coq_eval_shards(ctx, "tokens", "Model.Tokens Corr.TokensCorr", "TokensCorr.case", terms, "mm", chunk=200, preamble=pre)
    if any(j >= 1000000 for j in bad):
        bad = [j for j in bad if j < 1000000]
        if tb is not None:
            ctx.report(f"the constant tables of _utils.py (normalize_strings / skip_trailing_comma / simple_token.__eq__) are not the tables of Model/Tokens.v any more: {tb}",
                       {"kind": "tokens-tables", "tables": tb}, no_input=True, kind="correspondence")
    ctx.coverage["correspondence"]["utils_tables_from_source"] = tb
    # which of the two comparisons of Model/Tokens.v each call site uses
    try:
        sites = call_sites()
        ctx.coverage["correspondence"]["token_comparison_sites"] = [f"{f}:{ln}:{'norm' if nm else 'leaf'}" for f, ln, nm in sites]
        if len(sites) < 4:
            ctx.report(f"only {len(sites)} comparisons of _token_of_node(...) found in the source (4 expected: value_adapter, undecided_value, min_max_value, collection_value): "
                       "the update decision is made in a way Model/Tokens.v does not describe", {"kind": "tokens-sites", "sites": sites}, no_input=True, kind="correspondence")
        for f, ln, nm in sites:
            if not nm:
                ctx.report(f"{f}:{ln} compares the tokens of the node with un-normalized value tokens (needs_update_leaf): C08_update_fixpoint_norm does not apply to this call site, "
                           "see C08_leaf_trailing_comma_update_refuted (F-94)", {"kind": "tokens-sites", "sites": sites}, no_input=True, kind="correspondence")
    except ValueError as e:
        ctx.report(f"the call sites of the token comparison are not recognised any more: {e}", {"kind": "tokens-sites"}, no_input=True, kind="correspondence")
    ctx.coverage["traces_validated_against_impl"] += len(terms)
    ctx.coverage["correspondence"]["token_normalize"] = {"cases": len(terms), "mismatches": len(bad), "outside_lexer_model": nuns, "update_pending_leaf": nleaf, "update_pending_norm": nnorm}
    for j in bad[:5]:
        s, o = srcs[idx[j]], outs[idx[j]]
        ctx.report(f"Model/Tokens.v and _utils.normalize / simple_token.__eq__ differ on the argument {s!r}: _token_of_node -> {[t[1] for t in o['obs']]}, "
                   f"value_to_token -> {[t[1] for t in o['canon']]}, `!=` {o['leaf']}, with normalize {o['norm']}", {"kind": "tokens", "src": s}, no_input=True, kind="correspondence")


def replay_case(src):
    o = run_chunk([src])[0]
    print(src, o)
    if "error" in o:
        return False
    a = o["again"]
    return "error" not in a and not a["norm"] and not (a["leaf"] and not a["trailing"])
