"""Correspondence of Model/DictAssign.v with the code: `assert {new dict} == snapshot({hand-written dict display})` with a
subset of {fix, update}; the values of the display are leaves or nested lists / tuples (hand-written leaves like `2+3`,
user-controlled `Is(Vk)` parts); the entries of the rewritten display in TEXT ORDER (key, nesting, leaf values, which leaves
keep a hand-written text) vs the model in Coq."""
from __future__ import annotations

import ast

from . import driver
from . import treeassign as ta
from .core import g_Z, g_list
from .snapgen import g_flags

HDR = "from inline_snapshot import snapshot, Is\n\n\n"
UNM_CHOICES = [[0, 0, 0.25]]


def gen_case(rng):
    n = rng.choice([0, 1, 2, 3, 3, 4, 5])
    keys = rng.sample(range(10), n)
    ids = []
    saved = ta.UNM[0]
    ta.UNM[0] = rng.choice(UNM_CHOICES[0])
    try:
        olds = [(k, ta.gen_tree(rng, 1 if rng.random() < 0.45 else 3, ids)) for k in keys]
    finally:
        ta.UNM[0] = saved
    news = [(k, ta.tree_value(t)) for k, t in olds]
    for _ in range(rng.choice([0, 1, 1, 2, 3])):
        r = rng.random()
        if r < 0.3 and news:
            del news[rng.randrange(len(news))]
        elif r < 0.6:
            k = rng.choice([x for x in range(12) if x not in [a for a, _ in news]])
            news.insert(rng.randint(0, len(news)), (k, ta.gen_val(rng, 1)))
        elif r < 0.8 and news:
            i = rng.randrange(len(news))
            news[i] = (news[i][0], ta.mutate(rng, news[i][1]))
        elif len(news) >= 2:
            i, j = rng.sample(range(len(news)), 2)
            news[i], news[j] = news[j], news[i]
    flags = tuple(c for c in ("fix", "update") if rng.random() < 0.6)
    return {"olds": olds, "news": news, "flags": flags}


def render_old(c):
    return "{" + ", ".join(f"{k}: {ta.render_tree(t)}" for k, t in c["olds"]) + "}"


def unms(c):
    return [u for _, t in c["olds"] for u in ta.unms(t)]


def program(c, flags=None):
    vs = "".join(f"V{i} = {v}\n" for i, v in unms(c))
    new = "{" + ", ".join(f"{k}: {v!r}" for k, v in c["news"]) + "}"
    return HDR + vs + f"\n\ndef test_a():\n    assert {new} == snapshot({render_old(c)})\n"


def read_arg(after):
    tree = ast.parse(after)
    f = [n for n in tree.body if isinstance(n, ast.FunctionDef)][0]
    call = [n for n in ast.walk(f) if isinstance(n, ast.Call) and isinstance(n.func, ast.Name) and n.func.id == "snapshot"][0]
    return call.args[0]


def run_case(c):
    src = program(c)
    r = driver.run_inproc({"test_a.py": src}, c["flags"], block_black=True)
    out = {"session_exc": r["session_exc"], "source": src, "after": r["files"]["test_a.py"].decode()}
    try:
        arg = read_arg(out["after"])
        out["arg"] = ast.get_source_segment(out["after"], arg)
        if not isinstance(arg, ast.Dict):
            raise ValueError("the argument is no longer a dict display")
        out["observed"] = [(ast.literal_eval(kn), ta.read_back(ast.get_source_segment(out["after"], vn))) for kn, vn in zip(arg.keys, arg.values)]
        ns = {"Is": lambda x: x}
        ns.update({f"V{i}": v for i, v in unms(c)})
        out["value"] = eval(out["arg"], ns)
    except Exception as e:  # noqa
        out["error"] = f"{type(e).__name__}: {e}"
    return out


def g_case(c, o):
    return (f"({g_flags(c['flags'])}, {g_list(c['olds'], lambda t: f'({g_Z(t[0])}, {ta.g_tree(t[1])})')}, "
            f"{g_list(c['news'], lambda t: f'({g_Z(t[0])}, {ta.g_val(t[1])})')}, {g_list(o['observed'], lambda t: f'({g_Z(t[0])}, {ta.g_otree(t[1])})')})")


def _same(a, b):
    return a == b and type(a) is type(b) and (not isinstance(a, (list, tuple)) or all(_same(x, y) for x, y in zip(a, b)))


def _shape(t):
    if t[0] == "leaf":
        return t
    if t[0] == "unm":
        return ("unm", t[1])
    return (t[0], [_shape(x) for x in t[1]])


def oracle(c, o):
    """C02 / C10 / C11 on a dict display, stated without the model"""
    us = [i for i, _ in unms(c)]
    got_u = [u[1] for _, t in o["observed"] for u in ta._unm_list(t)]
    it = iter(us)
    if not all(g in it for g in got_u):
        return f"C10: user-controlled parts after the run {got_u} are not a subsequence of the ones before {us}: {render_old(c)} -> {o['arg']}"
    if "fix" not in c["flags"] and got_u != us:
        return f"C10: fix is not approved but user-controlled parts disappeared: {us} -> {got_u}"
    if us:
        return None
    got = o["value"]
    old = {k: ta.tree_value(t) for k, t in c["olds"]}
    new = dict(c["news"])
    keys = [k for k, _ in o["observed"]]
    if len(set(keys)) != len(keys):
        return f"a key is repeated: {o['arg']}"
    if "fix" in c["flags"] and not (got == new and all(_same(got[k], new[k]) for k in new)):
        return f"after fix the snapshot holds {got}, observed was {new}"
    if "fix" not in c["flags"] and got != old:
        return f"without fix the value changed from {old} to {got}"
    if "update" not in c["flags"]:
        texts = dict(o["observed"])
        for k, t in c["olds"]:
            if k in new and _same(new[k], ta.tree_value(t)) and k in texts and ta.g_otree(texts[k]) != ta.g_otree(_shape(t)):
                return f"entry {k}: {ta.render_tree(t)} is unchanged (same key, equal value) but its text was rewritten: {render_old(c)} -> {o['arg']}"
    return None


def run_orders(c):
    """C09 on a dict display: fix and update approved together vs one after the other (both orders)"""
    src = program(c)
    out = {"source": src, "routes": {}}
    for name, seq in (("fix,update", [("fix", "update")]), ("update;fix", [("update",), ("fix",)]), ("fix;update", [("fix",), ("update",)])):
        cur = src
        try:
            for flags in seq:
                r = driver.run_inproc({"test_a.py": cur}, flags, block_black=True)
                if r["session_exc"]:
                    raise RuntimeError(r["session_exc"])
                cur = r["files"]["test_a.py"].decode()
            arg = read_arg(cur)
            out["routes"][name] = (ast.dump(arg), ast.get_source_segment(cur, arg))
        except Exception as e:  # noqa
            out["routes"][name] = ("error", f"{type(e).__name__}: {e}")
    return out


def orders_oracle(c, o):
    ref = o["routes"]["fix,update"]
    for name, got in o["routes"].items():
        if got[0] == "error":
            return f"route {name} failed: {got[1]}"
        if got[0] != ref[0]:
            return f"{render_old(c)} observed {c['news']}: approving fix and update together gives {ref[1]}, the route {name} gives {got[1]}"
    return None


def check_part(ctx, n, label, orders=0):
    from .core import coq_eval_shards, pmap
    cases = [gen_case(ctx.rng) for _ in range(n)]
    outs = pmap(run_case, cases, chunksize=8)
    terms, idx = [], []
    nunm = 0
    for i, (c, o) in enumerate(zip(cases, outs)):
        ctx.count(("dict", repr(c)), [(k, ta.tree_value(t)) for k, t in c["olds"]] != c["news"])
        if o["session_exc"] or "error" in o:
            ctx.report(f"{label} (dict display): run failed: {o['session_exc'] or o.get('error')}: {render_old(c)} observed {c['news']} flags {c['flags']}",
                       {"kind": "dict", "case": c, "repr": repr(c)})
            continue
        nunm += bool(unms(c))
        why = oracle(c, o)
        if why:
            ctx.report(f"{label} oracle (dict display): " + why, {"kind": "dict", "case": c, "repr": repr(c)})
            continue
        terms.append(g_case(c, o))
        idx.append(i)
    bad = coq_eval_shards(ctx, "dictassign", "Model.SnapOps Model.TreeAssign Model.DictAssign Corr.TreeAssignCorr Corr.DictAssignCorr", "case", terms, "mismatches")
    ctx.coverage["traces_validated_against_impl"] += len(terms)
    ctx.coverage["correspondence"]["dict_assign"] = {"cases": len(terms), "mismatches": len(bad), "with_user_controlled_parts": nunm}
    for j in bad[:10]:
        c, o = cases[idx[j]], outs[idx[j]]
        ctx.report(f"Model/DictAssign.v and implementation differ (oracle silent): {render_old(c)} observed {c['news']} flags {c['flags']} -> {o['arg']}",
                   {"kind": "dict", "case": c, "repr": repr(c)}, no_input=True, kind="correspondence")
    if orders:
        saved = UNM_CHOICES[0]
        UNM_CHOICES[0] = [0]
        try:
            oc = [gen_case(ctx.rng) for _ in range(orders)]
        finally:
            UNM_CHOICES[0] = saved
        for c, o in zip(oc, pmap(run_orders, oc, chunksize=4)):
            ctx.count(("dict-orders", repr(c)), True)
            why = orders_oracle(c, o)
            if why:
                ctx.report(f"{label} oracle (dict display): " + why, {"kind": "dict-orders", "case": c, "repr": repr(c)})
        ctx.coverage["oracle"]["dict_display_routes"] = orders


def replay_case(case):
    c = eval(case["repr"])
    if case.get("kind") == "dict-orders":
        o = run_orders(c)
        for k, v in o["routes"].items():
            print(k, "->", v[1])
        why = orders_oracle(c, o)
        print("oracle:", why)
        return why is None
    o = run_case(c)
    print(render_old(c), "observed", c["news"], "flags", c["flags"], "->", o.get("arg"), o.get("error"), o.get("session_exc"))
    if o["session_exc"] or "error" in o:
        return False
    why = oracle(c, o)
    print("oracle:", why)
    return why is None
