"""Correspondence of Model/DictAssign.v with the code: `assert {new dict} == snapshot({hand-written dict display})` with a
subset of {fix, update}; the entries of the rewritten display in text order vs the model in Coq."""
from __future__ import annotations

import ast

from . import driver
from .core import g_Z, g_bool, g_list
from .snapgen import g_flags, render_atom

HDR = "from inline_snapshot import snapshot\n\n\n"


def gen_case(rng):
    n = rng.choice([0, 1, 2, 3, 3, 4, 5])
    keys = rng.sample(range(10), n)
    olds = [(k, rng.randint(0, 5), rng.random() < 0.5) for k in keys]
    news = [(k, v) for k, v, _ in olds]
    for _ in range(rng.choice([0, 1, 1, 2, 3])):
        r = rng.random()
        if r < 0.3 and news:
            del news[rng.randrange(len(news))]
        elif r < 0.6:
            k = rng.choice([x for x in range(12) if x not in [a for a, _ in news]])
            news.insert(rng.randint(0, len(news)), (k, rng.randint(0, 5)))
        elif r < 0.8 and news:
            i = rng.randrange(len(news))
            news[i] = (news[i][0], rng.randint(0, 5))
        elif len(news) >= 2:
            i, j = rng.sample(range(len(news)), 2)
            news[i], news[j] = news[j], news[i]
    flags = tuple(c for c in ("fix", "update") if rng.random() < 0.6)
    return {"olds": olds, "news": news, "flags": flags}


def render_old(c):
    return "{" + ", ".join(f"{k}: {render_atom(v, cn)}" for k, v, cn in c["olds"]) + "}"


def run_case(c):
    new = "{" + ", ".join(f"{k}: {v}" for k, v in c["news"]) + "}"
    src = HDR + f"def test_a():\n    assert {new} == snapshot({render_old(c)})\n"
    r = driver.run_inproc({"test_a.py": src}, c["flags"], block_black=True)
    out = {"session_exc": r["session_exc"], "source": src, "after": r["files"]["test_a.py"].decode()}
    try:
        tree = ast.parse(out["after"])
        f = [n for n in tree.body if isinstance(n, ast.FunctionDef)][0]
        call = [n for n in ast.walk(f) if isinstance(n, ast.Call) and isinstance(n.func, ast.Name) and n.func.id == "snapshot"][0]
        arg = call.args[0]
        out["arg"] = ast.get_source_segment(out["after"], arg)
        obs = []
        for kn, vn in zip(arg.keys, arg.values):
            vs = ast.get_source_segment(out["after"], vn)
            v = eval(vs)
            obs.append((ast.literal_eval(kn), v, vs == repr(v)))
        out["observed"] = obs
    except Exception as e:  # noqa
        out["error"] = f"{type(e).__name__}: {e}"
    return out


def g_case(c, o):
    tr = lambda t: f"({g_Z(t[0])}, {g_Z(t[1])}, {g_bool(t[2])})"  # noqa
    return f"({g_flags(c['flags'])}, {g_list(c['olds'], tr)}, {g_list(c['news'], lambda t: f'({g_Z(t[0])}, {g_Z(t[1])})')}, {g_list(o['observed'], tr)})"


def oracle(c, o):
    """C02 / C11 on a flat dict, stated without the model"""
    got = {k: v for k, v, _ in o["observed"]}
    old = {k: v for k, v, _ in c["olds"]}
    new = dict(c["news"])
    if "fix" in c["flags"] and got != new:
        return f"after fix the snapshot holds {got}, observed was {new}"
    if "fix" not in c["flags"] and got != old:
        return f"without fix the value changed from {old} to {got}"
    if "update" not in c["flags"]:
        texts = {k: cn for k, _, cn in o["observed"]}
        for k, v, cn in c["olds"]:
            if k in new and new[k] == v and k in texts and texts[k] != cn:
                return f"entry {k}: {render_atom(v, cn)} is unchanged (same key, equal value) but its text was rewritten: {render_old(c)} -> {o['arg']}"
    return None
