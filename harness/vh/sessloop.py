"""Correspondence of Model/Session.v with the code: real pytest sessions over projects of 2-4 test files, every file holding pending changes of a
random subset of the four categories, run with category flags (+ report) or in review mode with an answer per category; observed: for every
(file, category) whether the change was written, and the categories whose preview was printed, vs the model evaluated in Coq.  The independent oracle
states C04 on the session (written => approved; approved and previewed => written in EVERY file)."""
from __future__ import annotations

import shutil

from . import driver
from .core import g_bool, g_list, g_nat, g_pair

CATS = ("create", "fix", "trim", "update")
GCAT = {"create": "Create", "fix": "Fix", "trim": "Trim", "update": "Update"}
# one site per category: (source line, text of the argument after the change was written)
SITE = {
    "create": ("    assert 11 == snapshot()", "snapshot(11)"),
    "fix": ("    assert 22 == snapshot(20)", "snapshot(22)"),
    "trim": ("    assert 33 in snapshot([33, 39])", "snapshot([33])"),
    "update": ("    assert 44 == snapshot(40+4)", "snapshot(44)"),
}


# sites with TWO pending changes, one inside the node the other one removes (Model/SessionNest.v):
#   kind -> (source line, [(category, removes, encloser index in this list or None, text that shows that the change was written)])
NESTED = {
    # fix deletes the entry "size"; the never-compared inner snapshot has a pending update
    "nest_del": ('    assert {"name": "block"} == snapshot({"name": "block", "size": snapshot(1024 * 4)})',
                 [("fix", True, None, 'snapshot({"name": "block"})'), ("update", True, 0, "snapshot(4096)")]),
    # fix replaces the second element; the never-compared inner snapshot below it has a pending update
    "nest_rep": ('    assert [1, "x"] == snapshot([1, {"k": snapshot(0o10)}])',
                 [("fix", True, None, 'snapshot([1, "x"])'), ("update", True, 0, "snapshot(8)")]),
}


def gen_project(rng, nested=False):
    nfiles = rng.choice([2, 2, 3, 3, 4])
    files = []
    for _ in range(nfiles):
        files.append([c for c in CATS if rng.random() < (0.3 if nested else 0.45)])
    if nested:
        for f in files:
            f += [k for k in NESTED if rng.random() < 0.4]
        if not any(k in NESTED for f in files for k in f):
            files[rng.randrange(nfiles)].append(rng.choice(list(NESTED)))
    if not any(files):
        files[rng.randrange(nfiles)] = [rng.choice(CATS)]
    mode = rng.choice(["flags", "flags", "flags+report", "review", "none"])
    flags = [c for c in CATS if rng.random() < 0.5]
    answers = {c: rng.random() < 0.6 for c in CATS}
    if mode == "review":
        flags = []
    if mode == "none" or (mode == "flags" and not flags):
        mode, flags = "none", []
    # every third project has a format-command: a file that gets an approved change is then formatted as a whole, every other file must stay byte for byte
    return {"files": files, "mode": mode, "flags": flags, "answers": answers, "fmtcmd": rng.random() < 0.34}


def sources(p):
    out = {}
    for i, cats in enumerate(p["files"]):
        body = "".join(f"def test_{c}():\n{(SITE.get(c) or NESTED[c])[0]}\n\n\n" for c in cats) or "def test_nothing():\n    pass\n"
        out[f"test_f{i}.py"] = "from inline_snapshot import snapshot\n\nHAND = [1,2,\n        3]   # hand-written layout\n\n\n" + body
    return out


def changes_of(p):
    """the pending changes of the project: (id, category, file, removes, [enclosing ids], marker text, kind of site)"""
    out = []
    for i, kinds in enumerate(p["files"]):
        for k in kinds:
            if k in NESTED:
                base = len(out)
                for cat, rem, enc, marker in NESTED[k][1]:
                    out.append((len(out), cat, i, rem, [] if enc is None else [base + enc], marker, k))
            else:
                out.append((len(out), k, i, True, [], SITE[k][1], k))
    return out


def shown_approved(p):
    pend = {c[1] for c in changes_of(p)}
    if p["mode"] == "review":
        shown = set(CATS)
        appr = {c for c in CATS if p["answers"][c]}
    elif p["mode"] == "none":
        shown, appr = set(CATS), set()            # no terminal: the default is report
    else:
        shown = set(CATS) if p["mode"] == "flags+report" else set(p["flags"])
        appr = set(p["flags"])
    return shown, appr, pend


def run_project(p):
    d = driver.scratch_dir("sessloop-")
    try:
        src = sources(p)
        pyproject = '[tool.inline-snapshot]\nformat-command = "/venv/bin/python -m black -q -"\n' if p.get("fmtcmd") else ""
        driver.write_project(d, dict(src, **{"pyproject.toml": pyproject}))
        shown, appr, pend = shown_approved(p)
        args, stdin, tty = [], b"", False
        if p["mode"] == "review":
            args = ["--inline-snapshot=review"]
            tty = True
            for c in CATS:                      # one question per previewed category, in the order of the loop
                if c in pend:
                    stdin += b"y\n" if p["answers"][c] else b"n\n"
            stdin += b"n\n" * 3
        elif p["mode"] == "flags+report":
            args = ["--inline-snapshot=" + ",".join(p["flags"] + ["report"])]
        elif p["mode"] == "flags" and p["flags"]:
            args = ["--inline-snapshot=" + ",".join(p["flags"])]
        r = driver.run_pytest(d, args, stdin=stdin, tty=tty)
        out = r["stdout"] + r["stderr"]
        after = {n: (d / n).read_text() for n in src}
        obs = []
        for i, cats in enumerate(p["files"]):
            for c in cats:
                if c in SITE:
                    obs.append((i, c, SITE[c][1] in after[f"test_f{i}.py"]))
        nobs = [(cid, marker in after[f"test_f{f}.py"]) for cid, cat, f, rem, enc, marker, k in changes_of(p)]
        reported = [c for c in CATS if f"{c.capitalize()} snapshots" in out]
        untouched = [n for n in src if after[n] == src[n]]
        return {"obs": obs, "nobs": nobs, "untouched": untouched, "reported": reported, "rc": r["rc"], "internal": "INTERNALERROR" in out, "tail": out[-1200:], "infra": r.get("infra_error")}
    finally:
        shutil.rmtree(d, ignore_errors=True)


def oracle(p, o):
    shown, appr, pend = shown_approved(p)
    if o["internal"] or o["rc"] not in (0, 1):
        return f"the session ended with an internal error / exit status {o['rc']}"
    ch = changes_of(p)
    # a file none of whose pending changes is written stays byte for byte (also when another file of the session is rewritten and formatted)
    written_files = {c[2] for c, (cid, w) in zip(ch, o["nobs"]) if w}
    for i in range(len(p["files"])):
        if i not in written_files and f"test_f{i}.py" not in o["untouched"]:
            return (f"test_f{i}.py was modified although none of its pending changes was written (flags {p['flags']}, mode {p['mode']}, "
                    f"format-command {'set' if p.get('fmtcmd') else 'not set'})")
    for cid, written in o["nobs"]:
        _, c, i, _, enc, _, k = ch[cid]
        if k not in NESTED:
            continue
        if written and c not in appr:
            return f"the {c} change of the {k} site in test_f{i}.py was written although {c} is not approved (flags {p['flags']}, mode {p['mode']})"
        # C04: exactly the approved categories apply - a change inside a node that only a NOT approved change would remove is written like any other
        if c in appr and c in shown and not written and not any(ch[e][1] in appr for e in enc):
            return (f"{c} is approved and shown (flags {p['flags']}, mode {p['mode']}), the {c} change of the {k} site in test_f{i}.py lies inside a node that only the "
                    f"not approved category {[ch[e][1] for e in enc]} would remove, but it was not written")
    for i, c, written in o["obs"]:
        if written and c not in appr:
            return f"the {c} change of test_f{i}.py was written although {c} is not approved (flags {p['flags']}, mode {p['mode']})"
        if c in appr and c in shown and not written:
            return (f"{c} is approved (flags {p['flags']}, mode {p['mode']}) and pending in {sum(c in f for f in p['files'])} file(s), but the change of test_f{i}.py was not written "
                    f"(files hold {p['files']})")
    return None


def g_case(p, o):
    shown, appr, _ = shown_approved(p)
    pending = [(c, i) for i, cats in enumerate(p["files"]) for c in cats]
    return g_pair(g_list([c for c in CATS if c in shown], GCAT.get), g_list([c for c in CATS if c in appr], GCAT.get),
                  g_list(pending, lambda x: g_pair(GCAT[x[0]], g_nat(x[1]))),
                  g_list(o["obs"], lambda x: f"({g_nat(x[0])}, {GCAT[x[1]]}, {g_bool(x[2])})"), g_list(o["reported"], GCAT.get))


def g_ncase(p, o):
    shown, appr, _ = shown_approved(p)
    return g_pair(g_list([c for c in CATS if c in shown], GCAT.get), g_list([c for c in CATS if c in appr], GCAT.get),
                  g_list(changes_of(p), lambda x: f"({g_nat(x[0])}, {GCAT[x[1]]}, {g_nat(x[2])}, {g_bool(x[3])}, {g_list(x[4], g_nat)})"),
                  g_list(o["nobs"], lambda x: f"({g_nat(x[0])}, {g_bool(x[1])})"), g_list(o["reported"], GCAT.get))


def check_nested(ctx, n, label):
    """sessions whose pending changes include changes inside a node that a change of another category removes, vs Model/SessionNest.v"""
    from .core import coq_eval_shards, tmap
    ps = [gen_project(ctx.rng, nested=True) for _ in range(n)]
    terms, idx = [], []
    for k, (p, o) in enumerate(zip(ps, tmap(run_project, ps))):
        ctx.count(("sessnest", repr(p)), True)
        ctx.dist("nestloop.mode=" + p["mode"])
        if o.get("infra"):
            continue
        why = oracle(p, o)
        if why:
            ctx.report(f"{label} oracle (approval loop, nested changes): {why}", {"kind": "sessloop", "project": p, "output": o["tail"]})
            continue
        terms.append(g_ncase(p, o))
        idx.append(k)
    bad = coq_eval_shards(ctx, "sessnest", "Model.SnapOps Model.Session Model.SessionNest Corr.SessionNestCorr", "ncase", terms, "mismatchesN")
    ctx.coverage["traces_validated_against_impl"] += len(terms)
    ctx.coverage["correspondence"]["approval_loop_nested_changes"] = {"sessions": len(terms), "mismatches": len(bad)}
    for j in bad[:5]:
        ctx.report(f"Model/SessionNest.v and the real session differ (oracle silent): {ps[idx[j]]}", {"kind": "sessloop", "project": ps[idx[j]]}, no_input=True, kind="correspondence")


def check_part(ctx, n, label):
    from .core import coq_eval_shards, tmap
    ps = [gen_project(ctx.rng) for _ in range(n)]
    terms, idx = [], []
    for k, (p, o) in enumerate(zip(ps, tmap(run_project, ps))):
        ctx.count(("sessloop", repr(p)), len(p["files"]) >= 2 and bool(p["flags"] or p["mode"] == "review"))
        ctx.dist("loop.mode=" + p["mode"])
        if o.get("infra"):
            continue
        why = oracle(p, o)
        if why:
            ctx.report(f"{label} oracle (approval loop over several files): {why}", {"kind": "sessloop", "project": p, "output": o["tail"]})
            continue
        terms.append(g_case(p, o))
        idx.append(k)
    bad = coq_eval_shards(ctx, "session", "Model.SnapOps Model.Session Corr.SessionCorr", "case", terms, "mismatches")
    ctx.coverage["traces_validated_against_impl"] += len(terms)
    ctx.coverage["correspondence"]["approval_loop_over_files"] = {"sessions": len(terms), "mismatches": len(bad)}
    for j in bad[:5]:
        ctx.report(f"Model/Session.v and the real session differ (oracle silent): {ps[idx[j]]}", {"kind": "sessloop", "project": ps[idx[j]]}, no_input=True, kind="correspondence")


def replay_case(case):
    p = case["project"]
    p["answers"] = {k: bool(v) for k, v in p["answers"].items()}
    o = run_project(p)
    print(o["obs"], o["reported"], o["tail"][-400:])
    return oracle(p, o) is None
