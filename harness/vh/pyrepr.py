"""Correspondence of Model/PyRepr.v with the code: real Python objects of the supported types (nested), the tokens that
inline_snapshot._utils.value_to_token produces for them, and what Python's own parser reads from the generated code.

The abstract value (`pv` term) is built by this module from the object with its OWN rules (which keyword arguments a
dataclass shows, how a set is ordered, ...), so a disagreement with the implementation shows up in the token comparison."""
from __future__ import annotations

import ast
import dataclasses
import io
import token as tokmod
import tokenize
from collections import defaultdict, namedtuple
from dataclasses import dataclass, field
from enum import Enum

from .core import g_Z, g_list, g_nat, g_str

try:
    import attrs
except ImportError:  # pragma: no cover
    attrs = None


class Color(Enum):
    red = 1
    green = 2
    blue = 3


@dataclass
class DC:
    a: object
    b: object = 5
    c: list = field(default_factory=list)


NT = namedtuple("NT", "u v", defaults=[7])

if attrs is not None:
    @attrs.define
    class AT:
        x: object
        y: object = 3


IDS = {"None": 0, "True": 1, "False": 2, "set": 3, "frozenset": 4}


def nid(name):
    if name not in IDS:
        IDS[name] = len(IDS)
    return IDS[name]


STRS = ["", "a", "b c", "it's", 'say "hi"', "x\ny", "tab\there", "back\\slash", "é", "\U0001F40D", "line1\nline2\n", " lead", "q'\"both", "\x00nul"]
BYTES = [b"", b"a", b"\x00\xff", b"it's", b'q"', b"nl\n"]


def gen_hashable(rng, depth=0):
    r = rng.random()
    if r < 0.4:
        return rng.choice([0, 1, -1, 7, 255, -300, 12345678901234567890])
    if r < 0.7:
        return rng.choice(STRS)
    if r < 0.78:
        return rng.choice(BYTES)
    if r < 0.82:
        return None
    if r < 0.9:
        return rng.choice(list(Color))
    if depth < 2:
        return tuple(gen_hashable(rng, depth + 1) for _ in range(rng.randint(0, 3)))
    return True


def gen_obj(rng, depth=0, maxdepth=4):
    r = rng.random()
    if depth >= maxdepth or r < 0.25 + 0.12 * depth:
        r = rng.random()
        if r < 0.3:
            return rng.choice([0, 1, -1, 2, 7, 10, 255, -300, 12345678901234567890, -(10 ** 30)])
        if r < 0.55:
            return rng.choice(STRS)
        if r < 0.65:
            return rng.random() < 0.5
        if r < 0.72:
            return None
        if r < 0.8:
            return rng.choice(BYTES)
        if r < 0.9:
            return rng.choice(list(Color))
        return rng.choice([DC, Color, int, str, NT])
    sub = lambda: gen_obj(rng, depth + 1, maxdepth)  # noqa
    k = rng.random()
    n = rng.choice([0, 1, 1, 2, 2, 3])
    if k < 0.2:
        return [sub() for _ in range(n)]
    if k < 0.38:
        return tuple(sub() for _ in range(n))
    if k < 0.55:
        d = {}
        for _ in range(n):
            d[gen_hashable(rng)] = sub()
        return d
    if k < 0.63:
        pool = rng.choice([[1, 5, -2, 30, 7], ["a", "b c", "é", ""]])
        s = set(rng.sample(pool, min(n, len(pool))))
        return s if rng.random() < 0.6 else frozenset(s)
    if k < 0.75:
        kw = {"a": sub()}
        if rng.random() < 0.5:
            kw["b"] = rng.choice([5, sub()])
        if rng.random() < 0.4:
            kw["c"] = rng.choice([[], [sub()]])
        return DC(**kw)
    if k < 0.83:
        return NT(sub(), rng.choice([7, sub()]))
    if k < 0.9 and attrs is not None:
        return AT(sub(), rng.choice([3, sub()]))
    if k < 0.96:
        dd = defaultdict(rng.choice([int, list]))
        for _ in range(min(n, 2)):
            dd[gen_hashable(rng)] = sub()
        return dd
    return [sub()]


# ----------------------------------------------------------------------------- object -> expected pv term (Gallina text)
def g_pv(o):
    if o is None:
        return "VNone"
    if o is True:
        return "VTrue"
    if o is False:
        return "VFalse"
    if isinstance(o, Enum):
        return f"(VName {g_nat(nid(type(o).__qualname__))} {g_list([nid(o.name)], g_nat)})"
    if isinstance(o, type):
        return f"(VName {g_nat(nid(o.__qualname__))} [])"
    if isinstance(o, int):
        return f"(VInt {g_Z(o)})"
    if isinstance(o, str):
        return f"(VStr {g_str(o)})"
    if isinstance(o, bytes):
        return f"(VBytes {g_str(o)})"
    if isinstance(o, defaultdict):
        return f"(VCall {g_nat(nid('defaultdict'))} [] [{g_pv(o.default_factory)}; {g_pv(dict(o))}] [])"
    if isinstance(o, tuple) and hasattr(o, "_fields"):
        kw = [(f, getattr(o, f)) for f in o._fields if not (f in o._field_defaults and o._field_defaults[f] == getattr(o, f))]
        return f"(VCall {g_nat(nid(type(o).__qualname__))} [] [] {g_list(kw, lambda e: '(%s, %s)' % (g_nat(nid(e[0])), g_pv(e[1])))})"
    if isinstance(o, list):
        return "(VList " + g_list(o, g_pv) + ")"
    if isinstance(o, tuple):
        return "(VTuple " + g_list(o, g_pv) + ")"
    if isinstance(o, dict):
        return "(VDict " + g_list(list(o.items()), lambda e: f"({g_pv(e[0])}, {g_pv(e[1])})") + ")"
    if isinstance(o, (set, frozenset)):
        elems = sorted(o)          # homogeneous ints or strs: a total order
        inner = f"(VSet {g_list(elems, g_pv)})" if elems else None
        if isinstance(o, frozenset):
            return f"(VCall 4%nat [] {g_list([inner] if inner else [], str)} [])"
        return inner if inner else "(VCall 3%nat [] [] [])"
    if dataclasses.is_dataclass(o):
        kw = []
        for f in dataclasses.fields(o):
            v = getattr(o, f.name)
            if f.default is not dataclasses.MISSING and f.default == v:
                continue
            if f.default_factory is not dataclasses.MISSING and f.default_factory() == v:
                continue
            kw.append((f.name, v))
        return f"(VCall {g_nat(nid(type(o).__qualname__))} [] [] {g_list(kw, lambda e: '(%s, %s)' % (g_nat(nid(e[0])), g_pv(e[1])))})"
    if attrs is not None and attrs.has(type(o)):
        kw = []
        for f in attrs.fields(type(o)):
            v = getattr(o, f.name)
            if f.default is not attrs.NOTHING and f.default == v:
                continue
            kw.append((f.name, v))
        return f"(VCall {g_nat(nid(type(o).__qualname__))} [] [] {g_list(kw, lambda e: '(%s, %s)' % (g_nat(nid(e[0])), g_pv(e[1])))})"
    raise TypeError(type(o))


# ----------------------------------------------------------------------------- real tokens -> tok terms
OPS = {"[": "LB", "]": "RB", "(": "LP", ")": "RP", "{": "LC", "}": "RC", ",": "CM", ":": "CL", ".": "DOT", "-": "MINUS", "=": "EQ"}


def g_toks(tokens):
    out = []
    for t in tokens:
        if t.type == tokmod.NAME:
            out.append(f"(TNm {g_nat(nid(t.string))})")
        elif t.type == tokmod.NUMBER:
            out.append(f"(TNum {int(t.string)}%N)")
        elif t.type == tokmod.STRING:
            v = ast.literal_eval(t.string)
            out.append(f"(TB {g_str(v)})" if isinstance(v, bytes) else f"(TS {g_str(v)})")
        elif t.type == tokmod.OP and t.string in OPS:
            out.append(OPS[t.string])
        else:
            raise ValueError(f"token outside the model: {t!r}")
    return g_list(out)


# ----------------------------------------------------------------------------- Python's parser -> pv term
def g_ast(n):
    if isinstance(n, ast.Constant):
        v = n.value
        if v is None or v is True or v is False or isinstance(v, (int, str, bytes)):
            return g_pv(v)
        raise ValueError("constant outside the model")
    if isinstance(n, ast.UnaryOp) and isinstance(n.op, ast.USub) and isinstance(n.operand, ast.Constant) and isinstance(n.operand.value, int):
        return f"(VInt {g_Z(-n.operand.value)})"
    if isinstance(n, ast.List):
        return "(VList " + g_list(n.elts, g_ast) + ")"
    if isinstance(n, ast.Tuple):
        return "(VTuple " + g_list(n.elts, g_ast) + ")"
    if isinstance(n, ast.Set):
        return "(VSet " + g_list(n.elts, g_ast) + ")"
    if isinstance(n, ast.Dict):
        return "(VDict " + g_list(list(zip(n.keys, n.values)), lambda e: f"({g_ast(e[0])}, {g_ast(e[1])})") + ")"
    if isinstance(n, (ast.Name, ast.Attribute)):
        hd, path = dotted(n)
        return f"(VName {g_nat(nid(hd))} {g_list([nid(x) for x in path], g_nat)})"
    if isinstance(n, ast.Call):
        hd, path = dotted(n.func)
        kw = [(k.arg, k.value) for k in n.keywords]
        return (f"(VCall {g_nat(nid(hd))} {g_list([nid(x) for x in path], g_nat)} {g_list(n.args, g_ast)} "
                f"{g_list(kw, lambda e: '(%s, %s)' % (g_nat(nid(e[0])), g_ast(e[1])))})")
    raise ValueError(f"node outside the model: {ast.dump(n)}")


def dotted(n):
    path = []
    while isinstance(n, ast.Attribute):
        path.append(n.attr)
        n = n.value
    if not isinstance(n, ast.Name):
        raise ValueError("not a dotted name")
    return n.id, list(reversed(path))


def case_term(obj):
    """(Gallina term of the case, canonical key) for one object; uses the implementation from /repo/src"""
    from inline_snapshot._utils import value_to_token
    toks = value_to_token(obj)
    code = tokenize.untokenize(toks)
    try:
        parsed = "(Some " + g_ast(ast.parse(code.strip(), mode="eval").body) + ")"
    except (SyntaxError, ValueError):
        parsed = "None"
    return f"({g_pv(obj)}, {g_toks(toks)}, {parsed})", code
