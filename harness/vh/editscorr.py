"""Correspondence of Model/Edits.v with _change.apply_all: for the changes that survive without_obsolete_changes in one file, the tree of the snapshot
arguments (every list / tuple / dict display and every call with its elements; own range, position behind the opening brace, range as an element of the
parent including dict key / keyword name / redundant parentheses) is read from the file's AST and tokens BY THE HARNESS (own re-implementation of
expand_parentheses and of the element ranges), the changes are translated into "replaced / deleted / number of insertions", and the replacement ranges the
real apply_all recorded are compared with `ranges` of the model in Coq - where the premises of the theorem (wfb, invb) are evaluated on the same case."""
from __future__ import annotations

import ast

from .core import g_bool, g_list, g_nat


class Skip(Exception):
    pass


def extract(kept, replacements):
    """kept: the changes apply_all really applies (after without_obsolete_changes), all of one file.
    replacements: [((line, col), (line, col), text)] recorded for that file.  Returns a dict or raises Skip."""
    from inline_snapshot._change import CallArg, Delete, DictInsert, ListInsert, Replace
    if not kept:
        raise Skip("no changes")
    src = kept[0].file
    atok = src.asttokens()
    ln = atok._line_numbers

    def off(pos):
        return ln.line_to_offset(pos[0], pos[1]) + 1          # + 1: the synthetic root starts at 0

    def tok_start(t):
        return off(t.start)

    def tok_end(t):
        return off(t.end)

    ids = {}

    def nid(n):
        return ids.setdefault(id(n), len(ids) + 1)

    def expand(first, last, lbrace, rbrace):
        while True:
            p, n = atok.prev_token(first), atok.next_token(last)
            if p.string == "(" and n.string == ")" and p.index > lbrace.index and n.index < rbrace.index:
                first, last = p, n
            else:
                return first, last

    def build(node, es, ee):
        (sl, sc), (el, ec) = atok.get_text_positions(node, False)
        s, e = off((sl, sc)), off((el, ec))
        kids, b, ce = [], s + 1, e
        toks = list(atok.get_tokens(node))
        elements = None          # [(value node, first node of the element)]
        if isinstance(node, (ast.List, ast.Tuple)):
            if any(isinstance(x, ast.Starred) for x in node.elts):
                elements = None
            else:
                lb, rb = toks[0], toks[-1]
                if lb.string not in "[(" or rb.string not in "])":
                    raise Skip("display without braces")
                elements = [(x, x) for x in node.elts]
                b, ce = tok_end(lb), tok_start(rb)
        elif isinstance(node, ast.Dict):
            if any(k is None for k in node.keys):
                elements = None
            else:
                lb, rb = toks[0], toks[-1]
                elements = list(zip(node.values, node.keys))
                b, ce = tok_end(lb), tok_start(rb)
        elif isinstance(node, ast.Call):
            if any(isinstance(a, ast.Starred) for a in node.args) or any(kw.arg is None for kw in node.keywords):
                elements = None
            else:
                lb = atok.next_token(list(atok.get_tokens(node.func))[-1])
                rb = toks[-1]
                if lb.string != "(" or rb.string != ")":
                    raise Skip("call without parentheses")
                elements = [(a, a) for a in node.args] + [(kw.value, kw) for kw in node.keywords]
                b, ce = tok_end(lb), tok_start(rb)
        if elements is not None:
            for value, first_node in elements:
                vt = list(atok.get_tokens(value))
                if isinstance(node, ast.Dict):
                    kt = list(atok.get_tokens(first_node))
                    f = expand(kt[0], kt[-1], lb, rb)[0]
                    last = expand(vt[0], vt[-1], lb, rb)[1]
                else:
                    f, last = expand(vt[0], vt[-1], lb, rb)
                    if isinstance(first_node, ast.keyword):
                        f = list(atok.get_tokens(first_node))[0]
                kids.append(build(value, tok_start(f), tok_end(last)))
        return (nid(node), es, s, b, ce, e, ee, kids)

    # the outermost snapshot(...) calls of the file
    calls = []

    class V(ast.NodeVisitor):
        def visit_Call(self, n):
            if isinstance(n.func, ast.Name) and n.func.id == "snapshot":
                calls.append(n)
            else:
                self.generic_visit(n)
    V().visit(atok.tree)
    calls.sort(key=lambda n: (n.lineno, n.col_offset))
    top = []
    for c in calls:
        (sl, sc), (el, ec) = atok.get_text_positions(c, False)
        top.append(build(c, off((sl, sc)), off((el, ec))))
    end = len(atok.text) + 3
    tree = (0, 0, 0, 1, end, end, end, top)
    known = set(ids)
    rep, dele, ins = [], [], {}
    for ch in kept:
        node = getattr(ch, "node", None)
        if node is None or id(node) not in known:
            raise Skip("a change on a node outside the modelled tree")
        if isinstance(ch, Replace):
            rep.append(nid(node))
        elif isinstance(ch, Delete):
            dele.append(nid(node))
        elif isinstance(ch, (ListInsert, DictInsert)):
            k = (nid(node), ch.position)
            ins[k] = ins.get(k, 0) + len(ch.new_code)
        elif isinstance(ch, CallArg):
            pos = ch.arg_pos if ch.arg_pos is not None else len(node.args) + len(node.keywords)
            k = (nid(node), pos)
            ins[k] = ins.get(k, 0) + 1
        else:
            raise Skip(f"change type {type(ch).__name__}")
    observed = sorted((off(a), off(b)) for a, b, _ in replacements)
    # positions are only compared: number them in order (small numerals for Coq)
    pts = set()

    def collect(t):
        pts.update(t[1:7])
        for k in t[7]:
            collect(k)
    collect(tree)
    for a, b in observed:
        pts.update((a, b))
    rank = {p: i for i, p in enumerate(sorted(pts))}

    def rk(t):
        return (t[0],) + tuple(rank[x] for x in t[1:7]) + ([rk(k) for k in t[7]],)
    tree = rk(tree)
    observed = [(rank[a], rank[b]) for a, b in observed]
    return {"tree": tree, "rep": sorted(rep), "del": sorted(dele), "ins": sorted((p, i, n) for (p, i), n in ins.items()), "observed": observed}


def g_tree(t):
    i, es, s, b, ce, e, ee, kids = t
    return f"Node {i} {es} {s} {b} {ce} {e} {ee} {g_list(kids, g_tree)}"


def g_case(x):
    return (f"(({g_tree(x['tree'])}), {g_list(x['rep'], g_nat)}, {g_list(x['del'], g_nat)}, "
            f"{g_list(x['ins'], lambda t: f'({g_nat(t[0])}, {g_nat(t[1])}, {g_nat(t[2])})')}, {g_list(x['observed'], lambda r: f'({g_nat(r[0])}, {g_nat(r[1])})')})")


def tree_stats(t):
    """(number of nodes, depth)"""
    kids = t[7]
    if not kids:
        return 1, 0
    st = [tree_stats(k) for k in kids]
    return 1 + sum(a for a, _ in st), 1 + max(b for _, b in st)


def check_part(ctx, label, progs, outs):
    """progs / outs: programs and the results of driver.run_inproc(..., edits=True) of one check"""
    from .core import coq_eval_shards
    terms, idx = [], []
    skipped = {}
    for k, (p, o) in enumerate(zip(progs, outs)):
        ed = (o or {}).get("edits")
        if not ed:
            continue
        if "skip" in ed:
            skipped[ed["skip"]] = skipped.get(ed["skip"], 0) + 1
            continue
        ctx.count(("edits", repr(ed["tree"]), repr(ed["rep"]), repr(ed["del"]), repr(ed["ins"])), len(ed["observed"]) >= 2)
        n, d = tree_stats(ed["tree"])
        ctx.dist("edits.ranges=%d" % min(len(ed["observed"]), 6))
        ctx.dist("edits.depth=%d" % min(d, 5))
        terms.append(g_case(ed))
        idx.append(k)
    bad = coq_eval_shards(ctx, "edits", "Model.Edits Corr.EditsCorr", "case", terms, "mismatches", chunk=150)
    ctx.coverage["traces_validated_against_impl"] += len(terms)
    ctx.coverage["correspondence"]["apply_all_ranges"] = {"files": len(terms), "mismatches": len(bad), "skipped": skipped}
    for j in bad[:5]:
        p = progs[idx[j]]
        ctx.report(f"Model/Edits.v and apply_all differ (or a premise of {label}_edits_never_overlap does not hold) on the replacement ranges of a program",
                   {"kind": "edits", "source": p.get("source"), "flags": list(p.get("flags") or ()), "term": terms[j][:2000]}, no_input=True, kind="correspondence")
