"""Correspondence of Model/Unused.v with _find_external.unused_externals / DiscStorage.list / lookup_all: a real storage directory with generated file names
(hex names sharing prefixes, suffixes with and without digits, persisted and -new files) and a test file whose external("...") references are prefixes of any length,
whole names, or names of files that do not exist; the real function is called inside snapshot_env."""
from __future__ import annotations

import shutil
import tempfile
from pathlib import Path

from .core import coq_eval_shards, g_N, g_list, g_pair, pmap

HEX = "0123456789abcdef"
SUFFIXES = [".txt", ".bin", ".mp3", ".h5"]


def gen_case(rng, i):
    stems = []
    for _ in range(rng.randint(1, 6)):
        if stems and rng.random() < 0.4:
            base = rng.choice(stems)
            k = rng.randint(1, 7)
            stems.append(base[:k] + "".join(rng.choice(HEX) for _ in range(8 - k)))
        else:
            stems.append("".join(rng.choice(HEX) for _ in range(8)))
    store = sorted({s + ("-new" if rng.random() < 0.25 else "") + rng.choice(SUFFIXES) for s in stems})
    refs = []
    for _ in range(rng.randint(0, 4)):
        r = rng.random()
        name = rng.choice(store)
        stem, suf = name.split(".")[0].replace("-new", ""), "." + name.split(".")[1]
        if r < 0.6:
            refs.append(stem[:rng.randint(1, 8)] + "*" + (suf if rng.random() < 0.85 else rng.choice(SUFFIXES)))
        elif r < 0.75:
            refs.append(name)
        elif r < 0.9:
            refs.append("".join(rng.choice(HEX) for _ in range(rng.randint(1, 8))) + "*" + suf)
        else:
            refs.append(stem[:rng.randint(1, 8)] + "*")
    return {"store": store, "refs": refs, "imported": rng.random() < 0.9}


def run_case(c):
    from inline_snapshot import _find_external
    from inline_snapshot._external import DiscStorage
    from inline_snapshot._global_state import snapshot_env
    d = Path(tempfile.mkdtemp(prefix="unused-", dir="/var/tmp"))
    try:
        st = d / "store"
        st.mkdir()
        for n in c["store"]:
            (st / n).write_bytes(b"x")
        (st / ".gitignore").write_text("*-new.*\n")
        imp = "from inline_snapshot import snapshot, external\n" if c["imported"] else "from inline_snapshot import snapshot\n"
        src = imp + "\n\ndef test_a():\n    assert [] == snapshot([" + ", ".join(f"external({r!r})" for r in c["refs"]) + "])\n"
        f = d / "test_a.py"
        f.write_text(src)
        with snapshot_env() as state:
            state.storage = DiscStorage(st)
            state.files_with_snapshots = {str(f)}
            try:
                return {"unused": sorted(_find_external.unused_externals())}
            except Exception as e:  # noqa
                return {"error": f"{type(e).__name__}: {e}"}
    finally:
        shutil.rmtree(d, ignore_errors=True)


def g_str(s):
    return g_list([ord(ch) for ch in s], g_N)


def g_ref(r):
    if r.count("*") == 1:
        p, s = r.split("*")
        return f"(Glob {g_str(p)} {g_str(s)})"
    return f"(Exact {g_str(r)})"


def oracle(c, o):
    """the statement, directly: a stored file that a reference of the participating test file names by a prefix of its hash and its suffix is not unused"""
    if not c["imported"]:
        return None
    for r in c["refs"]:
        if r.count("*") != 1:
            continue
        p, s = r.split("*")
        for n in c["store"]:
            if n.startswith(p) and n.endswith(s) and len(n) >= len(p) + len(s) and n in o["unused"]:
                return f"the stored file {n} is referenced by external({r!r}) but counts as unused (trim would delete it)"
    for n in o["unused"]:
        if n not in c["store"]:
            return f"{n} is reported as unused but is not in the storage"
    return None


def check_part(ctx, n, label):
    cases = [gen_case(ctx.rng, i) for i in range(n)]
    outs = pmap(run_case, cases, chunksize=16)
    terms, idx = [], []
    for i, (c, o) in enumerate(zip(cases, outs)):
        ctx.count(("unused", repr(c)), len(c["refs"]) >= 1 and len(c["store"]) >= 2)
        ctx.dist("unused.refs=%d" % len(c["refs"]))
        if "error" in o:
            ctx.report(f"{label}: unused_externals() raised {o['error']} for storage {c['store']} and references {c['refs']}", {"kind": "unused", "case": c})
            continue
        why = oracle(c, o)
        if why:
            ctx.report(f"{label} oracle: {why} (storage {c['store']}, references {c['refs']})", {"kind": "unused", "case": c})
            continue
        refs = c["refs"] if c["imported"] else []
        terms.append(g_pair(g_list(c["store"], g_str), g_list(refs, g_ref), g_list(o["unused"], g_str)))
        idx.append(i)
    bad = coq_eval_shards(ctx, "unused", "Model.Unused Corr.UnusedCorr", "case", terms, "mismatches", chunk=200)
    ctx.coverage["traces_validated_against_impl"] += len(terms)
    ctx.coverage["correspondence"]["unused_externals"] = {"cases": len(terms), "mismatches": len(bad)}
    for j in bad[:5]:
        c, o = cases[idx[j]], outs[idx[j]]
        ctx.report(f"Model/Unused.v and unused_externals() differ: storage {c['store']}, references {c['refs']} (import present: {c['imported']}) -> {o['unused']}",
                   {"kind": "unused", "case": c}, no_input=True, kind="correspondence")


def replay_case(c):
    o = run_case(c)
    print(c, o)
    return "error" not in o and oracle(c, o) is None
