"""Correspondence of Model/ReEval.v with GenericValue._re_eval: a helper `site()` returns snapshot(<argument>); the argument is a generated nested expression (lists, tuples, dict
displays, integer literals) with holes `G[i]` (managed: has to evaluate to the same value again) and `Is(G[j])` (user-controlled: refreshed), as values and as dict keys; the snapshot is
evaluated and compared, G changes, it is evaluated and compared again.  Observed: usage error or not, and the result of the second comparison (True iff the refreshed value is used)."""
from __future__ import annotations

from . import driver
from .core import coq_eval_shards, g_Z, g_bool, g_list, g_nat, g_opt, g_pair, pmap

SRC = """from inline_snapshot import snapshot, Is
R = []
G = {first}


def site():
    return snapshot({arg})


def test_a():
    try:
        R.append(("ok", bool(site() == {v1})))
        G[:] = {second}
        R.append(("ok", bool(site() == {v2})))
    except BaseException as e:
        R.append(("exc", type(e).__name__))
"""


def gen_tree(rng, depth, holes):
    k = rng.random()
    if depth >= 3 or k < 0.35:
        c = rng.random()
        if c < 0.45:
            return ("lit", rng.randint(0, 9))
        h = len(holes)
        holes.append("unm" if c > 0.75 else "man")
        return (holes[-1], h)
    if k < 0.6:
        return ("list", [gen_tree(rng, depth + 1, holes) for _ in range(rng.randint(0, 3))])
    if k < 0.75:
        return ("tuple", [gen_tree(rng, depth + 1, holes) for _ in range(rng.randint(1, 3))])
    n = rng.randint(1, 3)
    keys = [("lit", 100 + i) for i in range(n)]
    if rng.random() < 0.4:
        h = len(holes)
        holes.append("key")
        keys[rng.randrange(n)] = ("key", h)
    return ("dict", keys, [gen_tree(rng, depth + 1, holes) for _ in range(n)])


def gen_case(rng, i):
    holes = []
    t = gen_tree(rng, 0, holes)
    first = [rng.randint(0, 9) for _ in holes]
    second = list(first)
    for j, kind in enumerate(holes):
        r = rng.random()
        if kind == "unm" and r < 0.7:
            second[j] = rng.choice([rng.randint(0, 9), [rng.randint(0, 9)], (1, 2)])
        elif kind == "man" and r < 0.25:
            second[j] = rng.choice([first[j] + 1, [first[j]], first[j] + 1])
        elif kind == "key" and r < 0.3:
            second[j] = first[j] + 1
    return {"tree": t, "first": first, "second": second}


def expr(t):
    k = t[0]
    if k == "lit":
        return str(t[1])
    if k in ("man", "key"):
        return f"G[{t[1]}]"
    if k == "unm":
        return f"Is(G[{t[1]}])"
    if k == "list":
        return "[" + ", ".join(expr(x) for x in t[1]) + "]"
    if k == "tuple":
        return "(" + ", ".join(expr(x) for x in t[1]) + ",)"
    return "{" + ", ".join(f"{expr(a)}: {expr(b)}" for a, b in zip(t[1], t[2])) + "}"


def value(t, G):
    k = t[0]
    if k == "lit":
        return t[1]
    if k in ("man", "key", "unm"):
        return G[t[1]]
    if k == "list":
        return [value(x, G) for x in t[1]]
    if k == "tuple":
        return tuple(value(x, G) for x in t[1])
    return {value(a, G): value(b, G) for a, b in zip(t[1], t[2])}


def g_vt(v):
    if isinstance(v, bool) or isinstance(v, int):
        return f"(VLeaf {g_Z(v)})"
    if isinstance(v, list):
        return f"(VNode 0 [] {g_list(v, g_vt)})"
    if isinstance(v, tuple):
        return f"(VNode 1 [] {g_list(list(v), g_vt)})"
    return f"(VNode 2 {g_list(list(v.keys()), g_Z)} {g_list(list(v.values()), g_vt)})"


def g_st(t, G):
    k = t[0]
    if k == "lit":
        return f"(SLeaf {g_Z(t[1])})"
    if k in ("man", "key"):
        return g_st_of_value(G[t[1]])
    if k == "unm":
        return f"(SUnm {g_vt(G[t[1]])})"
    if k == "list":
        return f"(SNode 0 [] {g_list(t[1], lambda x: g_st(x, G))})"
    if k == "tuple":
        return f"(SNode 1 [] {g_list(t[1], lambda x: g_st(x, G))})"
    return f"(SNode 2 {g_list([value(a, G) for a in t[1]], g_Z)} {g_list(t[2], lambda x: g_st(x, G))})"


def g_st_of_value(v):
    if isinstance(v, int):
        return f"(SLeaf {g_Z(v)})"
    if isinstance(v, list):
        return f"(SNode 0 [] {g_list(v, g_st_of_value)})"
    return f"(SNode 1 [] {g_list(list(v), g_st_of_value)})"


def render(c):
    return SRC.format(first=repr(c["first"]), second=repr(c["second"]), arg=expr(c["tree"]), v1=repr(value(c["tree"], c["first"])), v2=repr(value(c["tree"], c["second"])))


def run_case(c):
    src = render(c)
    r = driver.run_inproc({"test_a.py": src}, ())
    return {"source": src, "R": r["R"].get("test_a.py"), "session_exc": r["session_exc"], "module_exc": r["module_exc"], "changed": r["files"]["test_a.py"].decode() != src}


def valid(c):
    """dict keys stay distinct and hashable in both evaluations"""
    try:
        for G in (c["first"], c["second"]):
            def chk(t):
                if t[0] == "dict":
                    ks = [value(a, G) for a in t[1]]
                    if len(set(ks)) != len(ks):
                        raise ValueError
                    for x in t[2]:
                        chk(x)
                elif t[0] in ("list", "tuple"):
                    for x in t[1]:
                        chk(x)
            chk(c["tree"])
        return True
    except (ValueError, TypeError):
        return False


def check_part(ctx, n, label):
    cases = []
    i = 0
    while len(cases) < n:
        c = gen_case(ctx.rng, i)
        i += 1
        if valid(c):
            cases.append(c)
    outs = pmap(run_case, cases, chunksize=8)
    terms, idx = [], []
    for i, (c, o) in enumerate(zip(cases, outs)):
        ctx.count(("reeval-nested", repr(c)), c["first"] != c["second"])
        ctx.dist("reeval.holes=%d" % min(len(c["first"]), 5))
        R = o["R"] or []
        if o["session_exc"] or o["module_exc"] or len(R) < 1 or R[0] != ("ok", True):
            ctx.report(f"{label} (re-evaluation of a nested argument): the first evaluation already failed: {o['session_exc'] or o['module_exc'] or R}", {"kind": "reeval-nested", "case": c})
            continue
        if o["changed"]:
            ctx.report(f"{label} (re-evaluation of a nested argument): the file changed without approval", {"kind": "reeval-nested", "case": c})
            continue
        last = R[-1]
        if last[0] == "exc" and last[1] != "UsageError":
            ctx.report(f"{label} (re-evaluation of a nested argument): {last[1]} instead of a usage error or a result: snapshot({expr(c['tree'])}) with G = {c['first']} then {c['second']}",
                       {"kind": "reeval-nested", "case": c})
            continue
        # independent statement: no user-controlled hole -> usage error exactly when the value of the argument changed
        if "Is(" not in expr(c["tree"]):
            want_error = value(c["tree"], c["first"]) != value(c["tree"], c["second"]) or repr(value(c["tree"], c["first"])) != repr(value(c["tree"], c["second"]))
            if want_error != (last[0] == "exc"):
                ctx.report(f"{label} oracle: snapshot({expr(c['tree'])}) evaluates to {value(c['tree'], c['first'])!r} and then to {value(c['tree'], c['second'])!r}: "
                           f"{'no usage error' if want_error else 'usage error although the value is the same'} ({R})", {"kind": "reeval-nested", "case": c})
                continue
        obs = None if last[0] == "exc" else bool(last[1])
        terms.append(g_pair(g_st(c["tree"], c["first"]), g_vt(value(c["tree"], c["second"])), g_opt(obs, g_bool)))
        idx.append(i)
    bad = coq_eval_shards(ctx, "reeval", "Model.ReEval Corr.ReEvalCorr", "case", terms, "mismatches")
    ctx.coverage["traces_validated_against_impl"] += len(terms)
    ctx.coverage["correspondence"]["re_eval"] = {"cases": len(terms), "mismatches": len(bad)}
    for j in bad[:5]:
        c, o = cases[idx[j]], outs[idx[j]]
        ctx.report(f"Model/ReEval.v and GenericValue._re_eval differ: snapshot({expr(c['tree'])}) with G = {c['first']} then {c['second']} -> {o['R']}",
                   {"kind": "reeval-nested", "case": c}, no_input=True, kind="correspondence")


def _tup(t):
    if isinstance(t, list) and t and isinstance(t[0], str):
        return tuple(_tup(x) if isinstance(x, list) else x for x in t)
    if isinstance(t, list):
        return [_tup(x) for x in t]
    return t


def py_accepts(t, first, second):
    """harness-side reading of the rule, for replays only: every managed part evaluates to the same value (and type) again"""
    k = t[0]
    if k == "lit" or k == "unm":
        return True
    if k in ("man", "key"):
        return repr(first[t[1]]) == repr(second[t[1]])
    if k in ("list", "tuple"):
        return all(py_accepts(x, first, second) for x in t[1])
    return all(py_accepts(x, first, second) for x in t[1]) and all(py_accepts(x, first, second) for x in t[2])


def replay_case(c):
    def fix(v):
        return [tuple(x) if isinstance(x, list) and x == [1, 2] else x for x in v]
    c = {"tree": _tup(c["tree"]), "first": fix(c["first"]), "second": fix(c["second"])}
    o = run_case(c)
    print(o["source"], o["R"])
    R = o["R"] or []
    if not R or R[0] != ("ok", True):
        return False
    return (R[-1] == ("ok", True)) == py_accepts(c["tree"], c["first"], c["second"]) and (R[-1][0] == "ok" or R[-1][1] == "UsageError")
