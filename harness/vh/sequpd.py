"""Correspondence between Model/SeqUpdate.v and _change.generic_sequence_update (through apply_all):
containers with arbitrary trivia in the gaps, any deletions and insertions, executed by the real code."""
from __future__ import annotations

import ast
import io
import os
import tempfile
import tokenize
from pathlib import Path

from .core import g_bool, g_list, g_nat, g_pair

KINDS = ("list", "tuple", "dict", "call")


def gen_case(rng, kind=None, respect_premise=None):
    kind = kind or rng.choice(KINDS)
    n = rng.choice([0, 1, 1, 2, 2, 3, 4, 5])
    tid = [0]

    def triv():
        tid[0] += 1
        return ("T", tid[0])

    def gap(last):
        g = []
        if rng.random() < 0.25:
            g.append(triv())
        if not last or rng.random() < 0.4:
            g.append(("C",))
            if rng.random() < 0.3:
                g.append(triv())
        return g
    g0 = [triv()] if rng.random() < 0.25 else []
    items = [(i, gap(i == n - 1)) for i in range(n)]
    if kind == "tuple" and n == 1 and ("C",) not in items[0][1]:
        items[0] = (0, items[0][1] + [("C",)])
    dels = [rng.random() < 0.35 for _ in range(n)]
    ins = []
    nid = 10
    for pos in range(n + 1):
        k = rng.choice([0, 0, 0, 1, 1, 2])
        ins.append(list(range(nid, nid + k)))
        nid += k
    if respect_premise if respect_premise is not None else rng.random() < 0.7:
        for i in range(n):          # no insertion directly before a deleted element
            if dels[i]:
                ins[i] = []
    return {"kind": kind, "g0": g0, "items": items, "dels": dels, "ins": ins}


def elem_text(kind, i, new=False):
    p = "n" if new else "e"
    if kind == "dict":
        return f"k{p}{i}: {p}{i}"
    return f"{p}{i}"


def render(case):
    kind = case["kind"]
    op, cl = {"list": "[]", "tuple": "()", "dict": "{}", "call": "()"}[kind]

    def gtext(g):
        out = ""
        for t in g:
            out += "," if t[0] == "C" else f"  # t{t[1]}\n    "
        return out
    body = gtext(case["g0"])
    for i, g in case["items"]:
        body += " " + elem_text(kind, i) + gtext(g)
    prefix = "x = f" if kind == "call" else "x = "
    return f"{prefix}{op}{body}{cl}\n"


def run_case(case):
    """apply the deletions/insertions with the real code; returns the abstract token list between the braces"""
    from executing import Source
    from inline_snapshot._change import CallArg, Delete, DictInsert, ListInsert, apply_all
    from inline_snapshot._rewrite_code import ChangeRecorder
    import inline_snapshot._rewrite_code as rc
    src = render(case)
    d = Path(tempfile.mkdtemp(prefix="su-", dir=os.environ.get("VERIF_TMP") or "/var/tmp"))
    fn = d / "m.py"
    try:
        fn.write_text(src)
        source = Source.for_filename(str(fn))
        node = source.tree.body[0].value
        kind = case["kind"]
        if kind in ("list", "tuple"):
            elts = node.elts
        elif kind == "dict":
            elts = node.values
        else:
            elts = node.args
        changes = []
        for i, dl in enumerate(case["dels"]):
            if dl:
                changes.append(Delete("fix", source, elts[i], None))
        for pos, ids in enumerate(case["ins"]):
            if not ids:
                continue
            if kind in ("list", "tuple"):
                changes.append(ListInsert("fix", source, node, pos, [f"n{j}" for j in ids], ids))
            elif kind == "dict":
                changes.append(DictInsert("fix", source, node, pos, [(f"kn{j}", f"n{j}") for j in ids], [(j, j) for j in ids]))
            else:
                for j in ids:
                    changes.append(CallArg("fix", source, node, pos, None, f"n{j}", j))
        if not changes:
            return {"skip": True, "source": src}
        rec = ChangeRecorder()
        saved = (rc.format_code, rc.enforce_formatting)
        rc.format_code = lambda text, filename: text
        rc.enforce_formatting = lambda: True
        try:
            apply_all(changes, rec)
            files = list(rec.files())
            new = files[0].new_code() if files else src
        except AssertionError as e:
            return {"error": f"AssertionError: {str(e)[:200]}", "source": src}
        finally:
            rc.format_code, rc.enforce_formatting = saved
        return {"new": new, "source": src, "tokens": abstract_tokens(new, kind)}
    finally:
        import shutil
        shutil.rmtree(d, ignore_errors=True)


def abstract_tokens(text, kind):
    """tokens between the outermost braces of the assigned value"""
    toks = []
    depth = 0
    try:
        gen = list(tokenize.generate_tokens(io.StringIO(text).readline))
    except (tokenize.TokenError, IndentationError, SyntaxError) as e:
        return ("untokenizable", str(e))
    for t in gen:
        if t.type == tokenize.OP and t.string in "([{":
            depth += 1
            if depth == 1:
                continue
        if t.type == tokenize.OP and t.string in ")]}":
            depth -= 1
            if depth == 0:
                break
        if depth < 1:
            continue
        if t.type == tokenize.COMMENT:
            toks.append(("T", int(t.string.strip("# t"))))
        elif t.type == tokenize.OP and t.string == ",":
            toks.append(("C",))
        elif t.type == tokenize.NAME and t.string[0] == "e":
            toks.append(("O", int(t.string[1:])))
        elif t.type == tokenize.NAME and t.string[0] == "n":
            toks.append(("N", int(t.string[1:])))
    return toks


def g_tok(t):
    return {"C": "Comma", "T": "Triv %s", "O": "Old %s", "N": "New %s"}[t[0]] % (tuple(g_nat(x) for x in t[1:]) if len(t) > 1 else ())


def g_toks(l):
    return g_list(l, lambda t: "(" + g_tok(t) + ")" if len(t) > 1 else g_tok(t))


def g_case(case, out):
    items = g_list(case["items"], lambda it: g_pair(g_nat(it[0]), g_toks(it[1])))
    ins = g_list(case["ins"], lambda ids: g_toks([("N", j) for j in ids]))
    return g_pair(g_bool(case["kind"] == "tuple"), g_toks(case["g0"]), items, g_list(case["dels"], g_bool), ins, g_toks(out["tokens"]))


def spec_ok(case, out):
    """independent statement: the result parses, its elements are the kept old ones and the inserted ones in order,
    and a container with the same kind results (1-tuple keeps its comma)"""
    new = out["new"]
    try:
        tree = ast.parse(new)
    except SyntaxError as e:
        return f"result is not valid Python: {e}"
    node = tree.body[0].value
    kind = case["kind"]
    want = []
    for i, dl in enumerate(case["dels"]):
        want += [f"n{j}" for j in case["ins"][i]]
        if not dl:
            want.append(f"e{i}")
    want += [f"n{j}" for j in case["ins"][len(case["dels"])]]
    if kind == "list" and isinstance(node, ast.List):
        got = [e.id for e in node.elts]
    elif kind == "tuple" and isinstance(node, ast.Tuple):
        got = [e.id for e in node.elts]
    elif kind == "dict" and isinstance(node, ast.Dict):
        got = [e.id for e in node.values]
    elif kind == "call" and isinstance(node, ast.Call):
        got = [e.id for e in node.args]
    else:
        return f"the {kind} became a {type(node).__name__}"
    if got != want:
        return f"elements {got}, expected {want}"
    return None


def premise(case):
    """the inputs Assign produces: no insertion directly before a deleted element"""
    return not any(case["dels"][i] and case["ins"][i] for i in range(len(case["dels"])))
