"""./check <Cxx> [--tier quick|thorough] [--replay <path>]"""
from __future__ import annotations

import argparse
import importlib
import json
import os
import sys
import traceback

from .core import Ctx


def main():
    ap = argparse.ArgumentParser()
    ap.add_argument("prop")
    ap.add_argument("--tier", default=os.environ.get("VERIF_TIER") or "quick", choices=["quick", "thorough"])
    ap.add_argument("--replay")
    ap.add_argument("--seed", type=int, default=None)
    a = ap.parse_args()
    seed = a.seed if a.seed is not None else int(os.environ.get("VERIF_SEED") or 0)
    prop = a.prop.upper()
    try:
        mod = importlib.import_module(f"vh.props.{prop.lower()}")
    except ModuleNotFoundError as e:
        print(f"unknown property {prop}: {e}", file=sys.stderr)
        return 2
    if a.replay:
        data = json.load(open(a.replay))
        ctx = Ctx(prop, a.tier, data.get("seed", seed))
        try:
            ok = mod.replay(ctx, data)
        finally:
            import shutil
            shutil.rmtree(ctx.tmp, ignore_errors=True)
        print("replay:", "property holds on this case" if ok else "case still fails")
        return 0 if ok else 1
    ctx = Ctx(prop, a.tier, seed)
    try:
        mod.run(ctx)
    except Exception:
        # an infrastructure failure of the check itself: broken run, not a property verdict
        traceback.print_exc()
        import shutil
        shutil.rmtree(ctx.tmp, ignore_errors=True)
        print(f"[{prop}] check infrastructure error (no verdict)", file=sys.stderr)
        return 2
    return ctx.finish()


if __name__ == "__main__":
    sys.exit(main())
