"""Shared machinery of the checks: context, Coq build / proof step / correspondence shards,
known findings, replay files, evidence files."""
from __future__ import annotations

import fcntl
import hashlib
import json
import os
import random
import re
import shutil
import subprocess as sp
import sys
import tempfile
import time
from pathlib import Path

# the directory of this development: /verif, or a snapshot of it (vp run) - everything is relative to it
VERIF = Path(os.environ.get("VERIF_ROOT") or Path(__file__).resolve().parents[2])
# development only: VERIF_REPO points the checks at a scratch worktree (seeded-change evaluation in parallel) and
# VERIF_OUT receives evidence / replay files then; the registered commands set neither, so they run against /repo
REPO = Path(os.environ.get("VERIF_REPO") or "/repo")
OUT = Path(os.environ.get("VERIF_OUT") or VERIF)
COQ = VERIF / "coq"
PY = "/venv/bin/python"

CI_VARS = (
    "CI", "bamboo.buildKey", "BUILD_ID", "BUILD_NUMBER", "BUILDKITE", "CIRCLECI",
    "CONTINUOUS_INTEGRATION", "GITHUB_ACTIONS", "HUDSON_URL", "JENKINS_URL",
    "TEAMCITY_VERSION", "TRAVIS",
)

AXIOM_WHITELIST = {
    # stdlib axioms that a tactic may pull in; each is named in the evidence when it occurs
    "Coq.Logic.FunctionalExtensionality.functional_extensionality_dep",
    "FunctionalExtensionality.functional_extensionality_dep",
    "functional_extensionality_dep",
    "Eqdep.Eq_rect_eq.eq_rect_eq",
    "Coq.Logic.Eqdep.Eq_rect_eq.eq_rect_eq",
}

FORBIDDEN = re.compile(
    r"\b(Admitted|admit|Axiom|Axioms|Parameter|Parameters|Conjecture|Admit Obligations|bypass_check)\b|Unset Guard|Unset Positivity|Unset Universe|type-in-type|impredicative-set"
)

TRUSTED_BASE = [
    "TB-1 Coq 8.16.1 kernel (coqc, full .vo build); vm_compute for closed computations and correspondence shards; native_compute not used",
    "TB-2 no Axiom/Parameter/Admitted in the development (grep + Print Assumptions on every property theorem, parsed on every run)",
    "TB-3 the correspondence harness (Python): generators, Gallina literal printer, canonicalisers; agreement of model and code is established on the generated cases of each run only",
    "TB-4 third-party/runtime behaviour is modelled, not verified: CPython repr/lexer/parser, asttokens token ranges, executing, copy.deepcopy, SHA-256, POSIX rename/unlink/open, pytest outcome rules",
    "TB-5 the formatter (black / format-command) is an oracle function with hypotheses, validated instance-wise",
]


def clean_env(extra=None, keep_ci=False):
    env = dict(os.environ)
    if not keep_ci:
        for v in CI_VARS + ("PYCHARM_HOSTED", "INLINE_SNAPSHOT_DEFAULT_FLAGS", "FORCE_COLOR", "PYTEST_ADDOPTS"):
            env.pop(v, None)
    env["PYTHONPATH"] = f"{VERIF}/harness:{REPO}/src"
    env["PYTHONHASHSEED"] = env.get("PYTHONHASHSEED", "0")
    env["PYTHONDONTWRITEBYTECODE"] = "1"
    env["TERM"] = "unknown"
    env["COLUMNS"] = "200"
    if extra:
        env.update(extra)
    return env


# ----------------------------------------------------------------------------- Gallina literals

def g_nat(n):
    return f"{int(n)}%nat"


def g_N(n):
    return f"{int(n)}%N"


def g_Z(n):
    n = int(n)
    return f"({n})%Z" if n < 0 else f"{n}%Z"


def g_bool(b):
    return "true" if b else "false"


def g_list(items, f=str):
    return "[" + "; ".join(f(x) for x in items) + "]"


def g_opt(x, f=str):
    return "None" if x is None else f"(Some {f(x)})"


def g_pair(*xs):
    return "(" + ", ".join(xs) + ")"


def g_str(s):
    """a Python str / bytes as list N of code points / byte values"""
    if isinstance(s, bytes):
        return "[" + ";".join(str(b) for b in s) + "]%N"
    return "[" + ";".join(str(ord(c)) for c in s) + "]%N"


# ----------------------------------------------------------------------------- context

class Violation(Exception):
    pass


class Ctx:
    def __init__(self, prop, tier, seed):
        self.prop = prop
        self.tier = tier
        self.seed = seed
        self.rng = random.Random(f"{prop}-{seed}")
        self.t0 = time.time()
        base = os.environ.get("VERIF_TMP") or "/var/tmp"
        Path(base).mkdir(parents=True, exist_ok=True)
        self.tmp = Path(tempfile.mkdtemp(prefix=f"verif-{prop}-", dir=base))
        self.violations = []      # (what, replay path, no_input)
        self.known_hits = {}      # finding id -> count
        self.coverage = {
            "evaluations": 0,
            "distinct_nontrivial": 0,
            "rule": "",
            "samples": [],
            "traces_validated_against_impl": 0,
            "obligations": 0,
            "discharged": 0,
            "checker_cmd": "",
            "trusted_base": list(TRUSTED_BASE),
            "theorems": [],
            "distribution": {},
            "correspondence": {},
            "oracle": {},
        }
        self.assumptions = []
        self._distinct = set()
        self.findings = load_findings()
        self.thorough = tier == "thorough"
        self._nrep = 0

    # -- counting ---------------------------------------------------------------------------
    def count(self, case_key, nontrivial=True, n=1):
        """one evaluated case; case_key canonical (hashable / json-able)"""
        self.coverage["evaluations"] += n
        if nontrivial:
            k = hashlib.sha1(repr(case_key).encode("utf-8", "backslashreplace")).digest()[:10]
            if k not in self._distinct:
                self._distinct.add(k)
                self.coverage["distinct_nontrivial"] += 1

    def dist(self, key, n=1):
        d = self.coverage["distribution"]
        d[key] = d.get(key, 0) + n

    def sample(self, x, limit=6):
        if len(self.coverage["samples"]) < limit:
            self.coverage["samples"].append(x)

    # -- violations -------------------------------------------------------------------------
    def classify(self, tag):
        """tag: finding id recognised by the property's classifier (or None)."""
        if tag is None:
            return None
        f = self.findings.get(tag)
        if f and f["status"] == "known" and self.prop in f["properties"]:
            return f
        return None

    def report(self, what, case, tag=None, no_input=False, kind="oracle"):
        """A failing case. `tag` = finding id the classifier recognised (if any)."""
        f = self.classify(tag)
        if f is not None:
            self.known_hits[tag] = self.known_hits.get(tag, 0) + 1
            return False
        # replay files are written in finish(): failing inputs of the property first, then broken proofs / correspondences
        self.violations.append((what, {"property": self.prop, "kind": kind, "what": what, "seed": self.seed, "tier": self.tier,
                                       "finding_tag": tag, "case": case}, no_input))
        return True

    # -- finish -----------------------------------------------------------------------------
    def finish(self):
        wall = time.time() - self.t0
        cov = self.coverage
        for fid, f in sorted(self.findings.items()):
            if f["status"] == "known" and self.prop in f["properties"]:
                n = self.known_hits.get(fid, 0)
                print(f"KNOWN-FINDING: property={self.prop} {fid} {f['what']} (reproduced {n}x in this run)")
        cov["known_findings_hit"] = dict(self.known_hits)
        nviol = len(self.violations)
        ev = {
            "property_id": self.prop,
            "tier": self.tier,
            "seed": self.seed,
            "level": "proof",
            "coverage": cov,
            "assumptions": self.assumptions,
            "wall_s": round(wall, 2),
            "violations": nviol,
        }
        (OUT / "evidence").mkdir(exist_ok=True, parents=True)
        (OUT / "evidence" / f"{self.prop}.json").write_text(
            json.dumps(ev, indent=1, default=repr, ensure_ascii=True) + "\n")
        shutil.rmtree(self.tmp, ignore_errors=True)
        if os.environ.get("VERIF_VERBOSE"):
            for v in self.violations:
                print("  [violation]", ("(no input) " if v[2] else "") + v[0][:400])
        concrete = [v for v in self.violations if not v[2]]
        broken = [v for v in self.violations if v[2]]
        # a broken proof / correspondence is reported on its own only when the search found no failing input;
        # otherwise the failing inputs are the replays and the broken obligations are named inside them
        ordered = concrete if concrete else broken
        for k, (what, data, no_input) in enumerate(ordered[:5], 1):
            if concrete and broken:
                data = dict(data, broken_obligations=[b[0][:300] for b in broken[:5]])
            rp = OUT / "replays" / f"{self.prop}-{self.seed}-{k}.json"
            rp.parent.mkdir(exist_ok=True, parents=True)
            rp.write_text(json.dumps(data, indent=1, default=repr, ensure_ascii=True))
            line = f"VIOLATION property={self.prop} replay={rp}"
            if no_input:
                line += " no-failing-input-found"
            print(line)
            print(f"  -> {what}"[:600])
        print(f"[{self.prop}] tier={self.tier} seed={self.seed} evaluations={cov['evaluations']} "
              f"distinct_nontrivial={cov['distinct_nontrivial']} corr={cov['traces_validated_against_impl']} "
              f"theorems={cov['discharged']}/{cov['obligations']} violations={nviol} wall={wall:.1f}s")
        return 1 if nviol else 0


def load_findings():
    p = VERIF / "known_findings.json"
    if not p.exists():
        return {}
    data = json.loads(p.read_text())
    return {f["id"]: f for f in data["findings"]}


# ----------------------------------------------------------------------------- Coq

def _run(cmd, cwd=None, timeout=900, env=None):
    try:
        r = sp.run(cmd, cwd=cwd, capture_output=True, text=True, timeout=timeout, env=env)
        return r.returncode, r.stdout, r.stderr
    except sp.TimeoutExpired as e:
        return 124, (e.stdout or b"").decode() if isinstance(e.stdout, bytes) else (e.stdout or ""), "timeout"


def coq_build():
    """incremental full .vo build of /verif/coq under a lock; returns (ok, log)"""
    lock = open(VERIF / ".build.lock", "w")
    fcntl.flock(lock, fcntl.LOCK_EX)
    try:
        if not (COQ / "Makefile").exists() or (COQ / "Makefile").stat().st_mtime < (COQ / "_CoqProject").stat().st_mtime:
            rc, out, err = _run(["coq_makefile", "-f", "_CoqProject", "-o", "Makefile"], cwd=COQ)
            if rc != 0:
                return False, out + err
        rc, out, err = _run(["make", "-j16"], cwd=COQ, timeout=1500)
        return rc == 0, out + err
    finally:
        fcntl.flock(lock, fcntl.LOCK_UN)
        lock.close()


def strip_coq_comments(txt):
    out = []
    depth = 0
    i = 0
    n = len(txt)
    while i < n:
        if txt.startswith("(*", i):
            depth += 1
            i += 2
        elif depth and txt.startswith("*)", i):
            depth -= 1
            i += 2
        else:
            if not depth:
                out.append(txt[i])
            i += 1
    return "".join(out)


def grep_forbidden():
    bad = []
    for f in sorted(COQ.rglob("*.v")):
        txt = strip_coq_comments(f.read_text())
        for m in FORBIDDEN.finditer(txt):
            bad.append(f"{f.relative_to(COQ)}: {m.group(0)}")
    return bad


def proof_step(ctx: Ctx):
    """Build, then compile Props/<id>.v separately to read its Print Assumptions output."""
    cov = ctx.coverage
    props = COQ / "Props" / f"{ctx.prop}.v"
    src = props.read_text()
    theorems = re.findall(r"^\s*(?:Theorem|Lemma|Corollary)\s+(\w+)", src, re.M)
    cov["obligations"] = len(theorems)
    cov["checker_cmd"] = "make -C /verif/coq (coqc 8.16.1, full .vo) ; coqc -Q /verif/coq V Props/%s.v (Print Assumptions parsed)" % ctx.prop
    ok, log = coq_build()
    if not ok:
        cov["discharged"] = 0
        cov["theorems"] = [{"name": t, "status": "build failed"} for t in theorems]
        ctx.report("the Coq development no longer builds: " + log[-1500:], {"proof_obligation": ctx.prop, "log": log[-3000:]},
                   no_input=True, kind="proof")
        return False
    bad = grep_forbidden()
    if bad:
        ctx.report("forbidden vernacular in the development: " + "; ".join(bad[:5]), {"forbidden": bad}, no_input=True, kind="proof")
        return False
    out_vo = ctx.tmp / f"{ctx.prop}.vo"
    rc, out, err = _run(["coqc", "-Q", str(COQ), "V", "-o", str(out_vo), str(props)], cwd=COQ, timeout=600)
    if rc != 0:
        cov["discharged"] = 0
        ctx.report(f"Props/{ctx.prop}.v does not compile: " + (out + err)[-1500:], {"proof_obligation": ctx.prop}, no_input=True, kind="proof")
        return False
    # Print Assumptions blocks, in order
    blocks = re.split(r"\n(?=Closed under the global context|Axioms:)", "\n" + out)
    results = []
    for b in blocks:
        b = b.strip()
        if b.startswith("Closed under the global context"):
            results.append([])
        elif b.startswith("Axioms:"):
            names = re.findall(r"^(\S+)\s*:", b[len("Axioms:"):], re.M)
            results.append(names)
    printed = re.findall(r"Print Assumptions\s+(\w+)\s*\.", src)
    info = []
    okall = True
    if len(results) != len(printed) or set(printed) != set(theorems):
        okall = False
        ctx.report(f"Props/{ctx.prop}.v: Print Assumptions output does not cover every theorem ({len(results)} blocks, {len(printed)} commands, {len(theorems)} theorems)",
                   {"proof_obligation": ctx.prop}, no_input=True, kind="proof")
    else:
        for name, ax in zip(printed, results):
            extra = [a for a in ax if a not in AXIOM_WHITELIST]
            info.append({"name": name, "axioms": ax or "closed under the global context"})
            if extra:
                okall = False
                ctx.report(f"theorem {name} depends on non-whitelisted axioms {extra}", {"proof_obligation": name, "axioms": ax}, no_input=True, kind="proof")
    cov["theorems"] = info
    cov["discharged"] = len(info) if okall else 0
    return okall


SHARD_HDR = "From Coq Require Import List NArith ZArith Bool.\nImport ListNotations.\n"


def coq_eval_shards(ctx: Ctx, name, requires, case_type, cases, mismatch_fn, chunk=400, timeout=600, preamble=""):
    """cases: list of Gallina terms of type `case_type`; `mismatch_fn : list case_type -> list nat`
    returns the indices on which model and implementation differ.  Returns global indices."""
    if not cases:
        return []
    d = ctx.tmp / f"shards-{name}"
    d.mkdir(exist_ok=True)
    files = []
    for k in range(0, len(cases), chunk):
        part = cases[k:k + chunk]
        f = d / f"S{k // chunk}.v"
        f.write_text(
            SHARD_HDR + f"From V Require Import {requires}.\n" + preamble
            + f"Definition cases : list ({case_type}) :=\n  [ " + ";\n    ".join(part) + " ].\n"
            + f"Eval vm_compute in (length cases, {mismatch_fn} cases).\n")
        files.append((k, f, len(part)))
    procs = []
    bad = []
    maxp = 16
    pending = list(files)
    running = []

    def start(item):
        k, f, n = item
        p = sp.Popen(["coqc", "-Q", str(COQ), "V", "-o", str(f.with_suffix(".vo")), str(f)], cwd=d,
                     stdout=sp.PIPE, stderr=sp.STDOUT, text=True)
        return (item, p, time.time())

    while pending or running:
        while pending and len(running) < maxp:
            running.append(start(pending.pop(0)))
        item, p, t0 = running.pop(0)
        try:
            out, _ = p.communicate(timeout=timeout)
        except sp.TimeoutExpired:
            p.kill()
            out = "timeout"
        k, f, n = item
        m = re.search(r"=\s*\(\s*(\d+)(?:%nat)?\s*,\s*(\[[^\]]*\]|nil)\s*\)", out.replace("\n", " "))
        if p.returncode != 0 or not m or int(m.group(1)) != n:
            raise RuntimeError(f"correspondence shard {f} failed: {out[-2000:]}")
        idxs = re.findall(r"\d+", m.group(2))
        bad.extend(k + int(i) for i in idxs)
    shutil.rmtree(d, ignore_errors=True)
    return sorted(bad)


def pmap(func, items, procs=16, chunksize=1):
    """fork-based parallel map (falls back to serial for tiny inputs)"""
    items = list(items)
    if len(items) <= 2 or procs <= 1:
        return [func(x) for x in items]
    import multiprocessing as mp
    ctx = mp.get_context("fork")
    with ctx.Pool(min(procs, len(items))) as pool:
        return pool.map(func, items, chunksize)


def tmap(func, items, threads=16):
    """thread-based parallel map for subprocess-bound work (real pytest sessions)"""
    from concurrent.futures import ThreadPoolExecutor
    # modules that worker functions import lazily are imported here, in the calling thread: threads that import a package concurrently can see
    # it partially initialised (CPython's import deadlock avoidance)
    for mod in ("black", "tomllib", "ast", "xml.etree.ElementTree", "fnmatch"):
        try:
            __import__(mod)
        except Exception:  # noqa
            pass
    items = list(items)
    if len(items) <= 1:
        return [func(x) for x in items]
    with ThreadPoolExecutor(min(threads, len(items))) as ex:
        return list(ex.map(func, items))
