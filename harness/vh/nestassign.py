"""Correspondence of Model/Nest.v with the code: `assert <new value> == snapshot(<hand-written expression>)` where the
hand-written expression nests list / tuple displays, dict displays and constructor calls of dataclass-like classes in each
other at any depth (hand-written leaves `2+3`, user-controlled `Is(Vk)` parts, positional and keyword arguments, dict displays
that repeat a key), run with a subset of {fix, update}; what is read back from the rewritten argument (nesting, dict keys and
call arguments in TEXT ORDER, leaf values, which leaves keep a hand-written text) vs the model evaluated in Coq.
The independent oracle states C02 / C10 / C11 on the case without the model."""
from __future__ import annotations

import ast

from . import driver
from .core import g_Z, g_bool, g_list
from .snapgen import g_flags, render_atom

# class id -> (name, [(field id, default or None)]) ; the same table is written into every shard as the model's class table
CLASSES = {
    0: ("A", [(0, None), (1, 0), (2, [])]),
    1: ("B", [(3, 1), (4, (2,))]),
    2: ("C", [(5, None), (6, None)]),
}
NAME2CLS = {v[0]: k for k, v in CLASSES.items()}

UNM = [0.0]


def header(style):
    if style == "attrs":
        lines = ["import attrs", "from inline_snapshot import snapshot, Is", "", ""]
        for cid, (name, fields) in CLASSES.items():
            lines += ["@attrs.define", f"class {name}:"]
            for fid, d in fields:
                if d is None:
                    lines.append(f"    f{fid}: object")
                elif isinstance(d, list):
                    lines.append(f"    f{fid}: object = attrs.field(factory=lambda: {d!r})")
                else:
                    lines.append(f"    f{fid}: object = {d!r}")
            lines += ["", ""]
    else:
        lines = ["from dataclasses import dataclass, field", "from inline_snapshot import snapshot, Is", "", ""]
        for cid, (name, fields) in CLASSES.items():
            lines += ["@dataclass", f"class {name}:"]
            for fid, d in fields:
                if d is None:
                    lines.append(f"    f{fid}: object")
                elif isinstance(d, list):
                    lines.append(f"    f{fid}: object = field(default_factory=lambda: {d!r})")
                else:
                    lines.append(f"    f{fid}: object = {d!r}")
            lines += ["", ""]
    return "\n".join(lines)


# ----------------------------------------------------------------------------- generators
def gen_leaf(rng, ids):
    if UNM[0] and rng.random() < UNM[0]:
        ids.append(len(ids))
        return ("unm", ids[-1], rng.randint(0, 6))
    return ("leaf", rng.randint(0, 6), rng.random() < 0.6)


def gen_tree(rng, depth, ids, dups=True):
    if depth >= 3 or rng.random() < 0.25 + 0.2 * depth:
        return gen_leaf(rng, ids)
    k = rng.random()
    if k < 0.3:
        return (rng.choice(["list", "tuple"]), [gen_tree(rng, depth + 1, ids, dups) for _ in range(rng.choice([0, 1, 2, 2, 3, 4]))])
    if k < 0.65:
        n = rng.choice([0, 1, 2, 2, 3, 4])
        keys = rng.sample(range(0, 7), n)
        if dups and n >= 2 and rng.random() < 0.06:
            j = rng.randrange(1, n)              # the repeated key stands anywhere behind its first occurrence, also in front of further keys
            keys[j] = keys[rng.randrange(0, j)]
            saved = UNM[0]
            UNM[0] = 0.0            # no user-controlled part below a display that falls back to ValueAdapter
            try:
                return ("dict", [(kk, gen_tree(rng, depth + 1, ids, dups)) for kk in keys])
            finally:
                UNM[0] = saved
        return ("dict", [(kk, gen_tree(rng, depth + 1, ids, dups)) for kk in keys])
    cid = rng.choice(list(CLASSES))
    fields = CLASSES[cid][1]
    npos = rng.randint(0, len(fields)) if rng.random() < 0.25 else 0
    pos = [gen_tree(rng, depth + 1, ids, dups) for _ in range(npos)]
    rest = [fid for fid, d in fields[npos:]]
    given = [fid for fid, d in fields[npos:] if d is None or rng.random() < 0.6]
    rng.shuffle(given)
    kws = []
    for fid in given:
        d = dict(fields)[fid]
        if d is not None and isinstance(d, (list, tuple)) and len(d) and UNM[0] and rng.random() < 0.5:
            # spells out a container default with a user-controlled part inside (the argument as a whole is equal to the default of its field)
            ids.append(len(ids))
            kws.append((fid, ("list" if isinstance(d, list) else "tuple", [("unm", ids[-1], d[0])] + [val_tree(x, rng) for x in d[1:]])))
        elif d is not None and rng.random() < 0.3:
            kws.append((fid, val_tree(d, rng)))        # spells out the default
        else:
            kws.append((fid, gen_tree(rng, depth + 1, ids, dups)))
    return ("call", cid, pos, kws)


def val_tree(v, rng=None):
    """a hand-written expression for v (canonical unless rng decides otherwise for int leaves)"""
    if isinstance(v, list):
        return ("list", [val_tree(x, rng) for x in v])
    if isinstance(v, tuple) and not (v and v[0] == "obj"):
        return ("tuple", [val_tree(x, rng) for x in v])
    if isinstance(v, dict):
        return ("dict", [(k, val_tree(x, rng)) for k, x in v.items()])
    if isinstance(v, tuple):
        fields = CLASSES[v[1]][1]
        return ("call", v[1], [], [(fid, val_tree(x, rng)) for (fid, d), x in zip(fields, v[2]) if not (d is not None and veq(d, x))])
    return ("leaf", v, True if rng is None else rng.random() < 0.7)


def veq(a, b):
    """Python == on abstract values (objects are ('obj', class, [field values]))"""
    if isinstance(a, tuple) and a and a[0] == "obj":
        return isinstance(b, tuple) and bool(b) and b[0] == "obj" and a[1] == b[1] and len(a[2]) == len(b[2]) and all(veq(x, y) for x, y in zip(a[2], b[2]))
    if isinstance(b, tuple) and b and b[0] == "obj":
        return False
    if isinstance(a, list) or isinstance(a, tuple):
        return type(a) is type(b) and len(a) == len(b) and all(veq(x, y) for x, y in zip(a, b))
    if isinstance(a, dict):
        return isinstance(b, dict) and len(a) == len(b) and all(k in b and veq(v, b[k]) for k, v in a.items())
    return not isinstance(b, (list, tuple, dict)) and a == b


def tree_value(t):
    if t[0] == "leaf":
        return t[1]
    if t[0] == "unm":
        return t[2]
    if t[0] in ("list", "tuple"):
        vs = [tree_value(x) for x in t[1]]
        return vs if t[0] == "list" else tuple(vs)
    if t[0] == "dict":
        d = {}
        for k, x in t[1]:
            d[k] = tree_value(x)
        return d
    cid, pos, kws = t[1], t[2], t[3]
    fields = CLASSES[cid][1]
    kw = {fid: tree_value(x) for fid, x in kws}
    vals = []
    for i, (fid, d) in enumerate(fields):
        if i < len(pos):
            vals.append(tree_value(pos[i]))
        elif fid in kw:
            vals.append(kw[fid])
        else:
            vals.append(d)
    return ("obj", cid, vals)


def gen_val(rng, depth=0):
    if depth >= 3 or rng.random() < 0.45:
        return rng.randint(0, 6)
    k = rng.random()
    if k < 0.35:
        vs = [gen_val(rng, depth + 1) for _ in range(rng.choice([0, 1, 2, 3]))]
        return vs if rng.random() < 0.5 else tuple(vs)
    if k < 0.7:
        keys = rng.sample(range(0, 7), rng.choice([0, 1, 2, 3]))
        return {kk: gen_val(rng, depth + 1) for kk in keys}
    cid = rng.choice(list(CLASSES))
    return ("obj", cid, [d if d is not None and rng.random() < 0.5 else gen_val(rng, depth + 1) for fid, d in CLASSES[cid][1]])


def mutate(rng, v, depth=0):
    """the newly observed value: a few edits of the old one"""
    r = rng.random()
    if isinstance(v, tuple) and v and v[0] == "obj":
        if r < 0.08:
            return gen_val(rng, 2)
        fields = CLASSES[v[1]][1]
        vals = []
        for (fid, d), x in zip(fields, v[2]):
            q = rng.random()
            if q < 0.5:
                vals.append(x)
            elif q < 0.65 and d is not None:
                vals.append(d)
            else:
                vals.append(mutate(rng, x, depth + 1))
        return ("obj", v[1], vals)
    if isinstance(v, dict):
        if r < 0.08:
            return gen_val(rng, 2)
        items = [(k, mutate(rng, x, depth + 1) if rng.random() < 0.4 else x) for k, x in v.items()]
        for _ in range(rng.choice([0, 0, 1, 1, 2])):
            q = rng.random()
            if q < 0.35 and items:
                del items[rng.randrange(len(items))]
            elif q < 0.75:
                free = [k for k in range(0, 8) if k not in [a for a, _ in items]]
                if free:
                    items.insert(rng.randint(0, len(items)), (rng.choice(free), gen_val(rng, depth + 1)))
            elif len(items) >= 2:
                i, j = rng.sample(range(len(items)), 2)
                items[i], items[j] = items[j], items[i]
        return dict(items)
    if isinstance(v, (list, tuple)):
        items = [mutate(rng, x, depth + 1) if rng.random() < 0.4 else x for x in v]
        for _ in range(rng.choice([0, 0, 1, 1, 2])):
            q = rng.random()
            if q < 0.35 and items:
                del items[rng.randrange(len(items))]
            elif q < 0.7:
                items.insert(rng.randint(0, len(items)), gen_val(rng, depth + 1))
            elif items:
                i, j = rng.randrange(len(items)), rng.randrange(len(items))
                items[i], items[j] = items[j], items[i]
        if r < 0.08:
            return tuple(items) if isinstance(v, list) else list(items)
        if r < 0.12:
            return gen_val(rng, 2)
        return items if isinstance(v, list) else tuple(items)
    return rng.choice([v, v, rng.randint(0, 6), gen_val(rng, 2)])


def unms(t):
    if t[0] == "unm":
        return [(t[1], t[2])]
    if t[0] == "leaf":
        return []
    if t[0] in ("list", "tuple"):
        return [u for x in t[1] for u in unms(x)]
    if t[0] == "dict":
        return [u for _, x in t[1] for u in unms(x)]
    return [u for x in t[2] for u in unms(x)] + [u for _, x in t[3] for u in unms(x)]


def _par(txt, salt):
    """redundant parentheses around some elements / keys (deterministic: decided by the text itself): they belong to the element, not to the container"""
    import zlib
    return f"({txt})" if zlib.crc32((salt + txt).encode()) % 6 == 0 else txt


def render_tree(t):
    if t[0] == "leaf":
        return render_atom(t[1], t[2])
    if t[0] == "unm":
        return f"Is(V{t[1]})"
    if t[0] == "list":
        return "[" + ", ".join(_par(render_tree(x), "l") for x in t[1]) + "]"
    if t[0] == "tuple":
        return "(" + ", ".join(_par(render_tree(x), "t") for x in t[1]) + ("," if len(t[1]) == 1 else "") + ")"
    if t[0] == "dict":
        return "{" + ", ".join(f"{_par(str(k), 'k')}: {_par(render_tree(x), 'd')}" for k, x in t[1]) + "}"
    name = CLASSES[t[1]][0]
    return name + "(" + ", ".join([_par(render_tree(x), "p") for x in t[2]] + [f"f{fid}={_par(render_tree(x), 'a')}" for fid, x in t[3]]) + ")"


def render_val(v):
    if isinstance(v, tuple) and v and v[0] == "obj":
        name, fields = CLASSES[v[1]]
        return name + "(" + ", ".join(f"f{fid}={render_val(x)}" for (fid, d), x in zip(fields, v[2])) + ")"
    if isinstance(v, list):
        return "[" + ", ".join(render_val(x) for x in v) + "]"
    if isinstance(v, tuple):
        return "(" + ", ".join(render_val(x) for x in v) + ("," if len(v) == 1 else "") + ")"
    if isinstance(v, dict):
        return "{" + ", ".join(f"{k}: {render_val(x)}" for k, x in v.items()) + "}"
    return repr(v)


def has_dup_key(t):
    if t[0] in ("leaf", "unm"):
        return False
    if t[0] in ("list", "tuple"):
        return any(has_dup_key(x) for x in t[1])
    if t[0] == "dict":
        ks = [k for k, _ in t[1]]
        return len(set(ks)) != len(ks) or any(has_dup_key(x) for _, x in t[1])
    return any(has_dup_key(x) for x in t[2]) or any(has_dup_key(x) for _, x in t[3])


def gen_case(rng, unm_choices=(0, 0, 0.2)):
    ids = []
    UNM[0] = rng.choice(unm_choices)
    try:
        t = gen_tree(rng, 0, ids)
        tries = 0
        while t[0] in ("leaf", "unm") and tries < 5:
            t = gen_tree(rng, 0, ids)
            tries += 1
    finally:
        UNM[0] = 0.0
    ids2 = unms(t)
    old = tree_value(t)
    new = old if rng.random() < 0.1 else mutate(rng, old)
    flags = tuple(c for c in ("fix", "update") if rng.random() < 0.6)
    return {"tree": t, "new": new, "flags": flags, "style": rng.choice(["dataclass", "dataclass", "attrs"])}


# ----------------------------------------------------------------------------- running the implementation
def program(c):
    us = []
    seen = set()
    for i, v in unms(c["tree"]):
        if i not in seen:
            seen.add(i)
            us.append((i, v))
    vs = "".join(f"V{i} = {v}\n" for i, v in us)
    return header(c["style"]) + vs + f"\n\ndef test_a():\n    assert {render_val(c['new'])} == snapshot({render_tree(c['tree'])})\n"


def read_back(seg):
    node = ast.parse(seg, mode="eval").body

    def conv(n):
        if isinstance(n, ast.List):
            return ("list", [conv(e) for e in n.elts])
        if isinstance(n, ast.Tuple):
            return ("tuple", [conv(e) for e in n.elts])
        if isinstance(n, ast.Dict):
            return ("dict", [(ast.literal_eval(k), conv(v)) for k, v in zip(n.keys, n.values)])
        if isinstance(n, ast.Call) and isinstance(n.func, ast.Name) and n.func.id in NAME2CLS:
            return ("call", NAME2CLS[n.func.id], [(None, conv(a)) for a in n.args] + [(int(kw.arg[1:]), conv(kw.value)) for kw in n.keywords])
        s = ast.get_source_segment(seg, n)
        if s.startswith("Is(V") and s.endswith(")"):
            return ("unm", int(s[4:-1]))
        v = eval(s)
        if isinstance(v, bool) or not isinstance(v, int):
            raise ValueError(f"leaf outside the model: {s}")
        return ("leaf", v, s == repr(v))
    return conv(node)


def snapshot_arg(text):
    tree = ast.parse(text)
    f = [n for n in tree.body if isinstance(n, ast.FunctionDef)][0]
    call = [n for n in ast.walk(f) if isinstance(n, ast.Call) and isinstance(n.func, ast.Name) and n.func.id == "snapshot"][0]
    return tree, call.args[0]


def run_case(c):
    src = program(c)
    r = driver.run_inproc({"test_a.py": src}, c["flags"], block_black=True)
    out = {"session_exc": r["session_exc"], "source": src, "after": r["files"]["test_a.py"].decode()}
    try:
        tree, arg = snapshot_arg(out["after"])
        seg = ast.get_source_segment(out["after"], arg)
        out["arg"] = seg
        out["observed"] = read_back(seg)
        ns = {}
        exec(compile(ast.Module(body=[n for n in tree.body if not isinstance(n, ast.FunctionDef)], type_ignores=[]), "<m>", "exec"), ns)
        ns["Is"] = lambda x: x
        got, new, old = eval(seg, ns), eval(render_val(c["new"]), ns), eval(render_tree(c["tree"]), ns)
        out["eq_new"] = bool(got == new) and same_types(got, new)
        out["eq_old"] = bool(got == old) and same_types(got, old)
        out["old_eq_new"] = bool(old == new) and same_types(old, new)
    except Exception as e:  # noqa
        out["error"] = f"{type(e).__name__}: {e}"
    return out


def same_types(a, b):
    if type(a) is not type(b):
        return False
    if isinstance(a, (list, tuple)):
        return len(a) == len(b) and all(same_types(x, y) for x, y in zip(a, b))
    if isinstance(a, dict):
        return a.keys() == b.keys() and all(same_types(v, b[k]) for k, v in a.items())
    if hasattr(a, "__dataclass_fields__") or hasattr(a, "__attrs_attrs__"):
        names = [f"f{fid}" for fid, _ in CLASSES[NAME2CLS[type(a).__name__]][1]]
        return all(same_types(getattr(a, n), getattr(b, n)) for n in names)
    return True


def obs_unms(o):
    if o[0] == "unm":
        return [o[1]]
    if o[0] == "leaf":
        return []
    if o[0] in ("list", "tuple"):
        return [u for x in o[1] for u in obs_unms(x)]
    if o[0] == "dict":
        return [u for _, x in o[1] for u in obs_unms(x)]
    return [u for _, x in o[2] for u in obs_unms(x)]


def tree_shape(t):
    """the observable shape of a hand-written expression (as read_back would return it)"""
    if t[0] == "leaf":
        return t
    if t[0] == "unm":
        return ("unm", t[1])
    if t[0] in ("list", "tuple"):
        return (t[0], [tree_shape(x) for x in t[1]])
    if t[0] == "dict":
        return ("dict", [(k, tree_shape(x)) for k, x in t[1]])
    return ("call", t[1], [(None, tree_shape(x)) for x in t[2]] + [(k, tree_shape(x)) for k, x in t[3]])


def same_modulo_positional(t, o):
    """is the observed shape o the shape of t everywhere outside calls that were written with positional arguments (F-41)?"""
    if t[0] == "call" and t[2]:
        return o[0] == "call" and o[1] == t[1]
    if t[0] in ("leaf", "unm"):
        return tree_shape(t) == o
    if t[0] in ("list", "tuple"):
        return o[0] == t[0] and len(o[1]) == len(t[1]) and all(same_modulo_positional(x, y) for x, y in zip(t[1], o[1]))
    if t[0] == "dict":
        return o[0] == "dict" and len(o[1]) == len(t[1]) and all(k == k2 and same_modulo_positional(x, y) for (k, x), (k2, y) in zip(t[1], o[1]))
    return (o[0] == "call" and o[1] == t[1] and len(o[2]) == len(t[3])
            and all(k == k2 and same_modulo_positional(x, y) for (k, x), (k2, y) in zip(t[3], o[2])))


def oracle(c, o, label="DEV"):
    """C02 / C10 / C11 on this case, stated without the model; returns (why, finding tag) or None.
    label selects the clauses: C02 (value after the run), C10 (user-controlled parts), C11 (unchanged text), DEV = all"""
    want = [i for i, _ in unms(c["tree"])]
    got = obs_unms(o["observed"])
    if label in ("C10", "DEV"):
        it = iter(want)
        if not all(g in it for g in got):
            return f"C10: user-controlled parts after the run {got} are not a subsequence of the ones before {want}", None
        if "fix" not in c["flags"] and got != want:
            return f"C10: fix is not approved but user-controlled parts disappeared: {want} -> {got}", None
    if want:
        return None
    if label == "C05":
        if "fix" not in c["flags"] and not o["eq_old"]:
            return f"C05: fix is not approved (flags {c['flags']}) but the value changed: {render_tree(c['tree'])} -> {o['arg']}", None
    if label in ("C02", "DEV"):
        if "fix" in c["flags"]:
            if not o["eq_new"]:
                return f"C02: after fix the snapshot holds {o['arg']}, observed was {render_val(c['new'])}", None
        elif not o["eq_old"]:
            return f"without fix the value changed: {render_tree(c['tree'])} -> {o['arg']}", None
    if label in ("C11", "DEV"):
        if "update" not in c["flags"] and o["old_eq_new"] and o["arg"] != render_tree(c["tree"]):
            # F-41: the text differs only inside calls that were written with positional arguments
            tag = "F-41" if same_modulo_positional(c["tree"], o["observed"]) and tree_shape(c["tree"]) != o["observed"] else None
            return f"C11: the value did not change and update is not approved, yet the text changed: {render_tree(c['tree'])} -> {o['arg']}", tag
    return None


# ----------------------------------------------------------------------------- Gallina
def g_kind(k):
    return "KList" if k == "list" else "KTuple"


def g_tree(t):
    if t[0] == "leaf":
        return f"(NLeaf {g_Z(t[1])} {g_bool(t[2])})"
    if t[0] == "unm":
        return f"(NUnm {t[1]}%nat {g_Z(t[2])})"
    if t[0] in ("list", "tuple"):
        return f"(NLst {g_kind(t[0])} {g_list(t[1], g_tree)})"
    if t[0] == "dict":
        return f"(NDct {g_list(t[1], lambda kv: f'({g_Z(kv[0])}, {g_tree(kv[1])})')})"
    return f"(NCall {g_Z(t[1])} {g_list(t[2], g_tree)} {g_list(t[3], lambda kv: f'({g_Z(kv[0])}, {g_tree(kv[1])})')})"


def g_val(v):
    if isinstance(v, tuple) and v and v[0] == "obj":
        fields = CLASSES[v[1]][1]
        return f"(NObj {g_Z(v[1])} {g_list(list(zip(fields, v[2])), lambda p: f'({g_Z(p[0][0])}, {g_val(p[1])})')})"
    if isinstance(v, (list, tuple)):
        return f"(NSeq {'KList' if isinstance(v, list) else 'KTuple'} {g_list(list(v), g_val)})"
    if isinstance(v, dict):
        return f"(NDict {g_list(list(v.items()), lambda kv: f'({g_Z(kv[0])}, {g_val(kv[1])})')})"
    return f"(NAtom {g_Z(v)})"


def g_oshape(o):
    if o[0] == "leaf":
        return f"(OLeaf {g_Z(o[1])} {g_bool(o[2])})"
    if o[0] == "unm":
        return f"(OUnm {o[1]}%nat)"
    if o[0] in ("list", "tuple"):
        return f"(OSeq {g_kind(o[0])} {g_list(o[1], g_oshape)})"
    if o[0] == "dict":
        return f"(ODict {g_list(o[1], lambda kv: f'({g_Z(kv[0])}, {g_oshape(kv[1])})')})"
    return f"(OCall {g_Z(o[1])} {g_list(o[2], lambda kv: '(' + ('None' if kv[0] is None else 'Some ' + g_Z(kv[0])) + ', ' + g_oshape(kv[1]) + ')')})"


def g_ct():
    """the class table of the model, from CLASSES"""
    body = "[]"
    for cid in sorted(CLASSES, reverse=True):
        fields = CLASSES[cid][1]
        row = g_list(fields, lambda f: f"({g_Z(f[0])}, {'None' if f[1] is None else 'Some ' + g_val(f[1])})")
        body = f"if Z.eqb c {g_Z(cid)} then {row} else {body}"
    return f"Definition ct : ctab := fun c => {body}.\n"


def g_case(c, o):
    return f"({g_flags(c['flags'])}, {g_tree(c['tree'])}, {g_val(c['new'])}, {g_oshape(o['observed'])})"


REQ = "Model.SnapOps Model.TreeAssign Model.Nest Corr.NestCorr"


def check_part(ctx, n, label, unm_choices=(0, 0, 0.2)):
    from .core import coq_eval_shards, pmap
    cases = [gen_case(ctx.rng, unm_choices) for _ in range(n)]
    outs = pmap(run_case, cases, chunksize=8)
    terms, idx = [], []
    stats = {"with_user_controlled_parts": 0, "dict_in_container": 0, "call_in_container": 0, "repeated_key": 0, "changed": 0}
    for i, (c, o) in enumerate(zip(cases, outs)):
        text = render_tree(c["tree"])
        ctx.count(("nest", text, render_val(c["new"]), c["flags"]), not veq(tree_value(c["tree"]), c["new"]))
        if o["session_exc"] or "error" in o:
            ctx.report(f"{label} (nested value): run failed: {o['session_exc'] or o.get('error')}: {text} observed {render_val(c['new'])} flags {c['flags']}",
                       {"kind": "nest", "case": c, "repr": repr(c)})
            continue
        stats["with_user_controlled_parts"] += bool(unms(c["tree"]))
        stats["dict_in_container"] += "{" in text[1:]
        stats["call_in_container"] += any(nm + "(" in text[1:] for nm in NAME2CLS)
        stats["changed"] += not veq(tree_value(c["tree"]), c["new"])
        stats["repeated_key"] += has_dup_key(c["tree"])
        why = oracle(c, o, label)
        if why:
            ctx.report(f"{label} oracle (nested value): {why[0]}: {text} observed {render_val(c['new'])} flags {c['flags']} -> {o.get('arg')}",
                       {"kind": "nest", "case": c, "repr": repr(c), "label": label}, tag=why[1])
            continue
        terms.append(g_case(c, o))
        idx.append(i)
    bad = coq_eval_shards(ctx, "nestassign", REQ, "case", terms, "mismatches ct", preamble=g_ct())
    ctx.coverage["traces_validated_against_impl"] += len(terms)
    ctx.coverage["correspondence"]["nest_assign"] = dict(stats, cases=len(terms), mismatches=len(bad))
    for j in bad[:10]:
        c, o = cases[idx[j]], outs[idx[j]]
        ctx.report(f"Model/Nest.v and implementation differ (oracle silent): {render_tree(c['tree'])} observed {render_val(c['new'])} flags {c['flags']} -> {o['arg']}",
                   {"kind": "nest", "case": c, "repr": repr(c)}, no_input=True, kind="correspondence")


# ----------------------------------------------------------------------------- never-compared snapshots vs Model/Undecided.v
def gen_never(rng, unm_choices=(0, 0.2, 0.3)):
    c = gen_case(rng, unm_choices)
    c["flags"] = tuple(f for f in ("create", "fix", "trim", "update") if rng.random() < 0.6)
    c["never"] = True
    return c


def program_never(c):
    us, seen = [], set()
    for i, v in unms(c["tree"]):
        if i not in seen:
            seen.add(i)
            us.append((i, v))
    vs = "".join(f"V{i} = {v}\n" for i, v in us)
    return header(c["style"]) + vs + f"\n\ndef test_a():\n    s = snapshot({render_tree(c['tree'])})\n"


def run_never(c):
    src = program_never(c)
    r = driver.run_inproc({"test_a.py": src}, c["flags"], block_black=True)
    out = {"session_exc": r["session_exc"], "source": src, "after": r["files"]["test_a.py"].decode(), "tests": [(t[1], t[2][:200]) for t in r["tests"]]}
    try:
        tree, arg = snapshot_arg(out["after"])
        seg = ast.get_source_segment(out["after"], arg)
        out["arg"] = seg
        out["observed"] = read_back(seg)
        ns = {}
        exec(compile(ast.Module(body=[n for n in tree.body if not isinstance(n, ast.FunctionDef)], type_ignores=[]), "<m>", "exec"), ns)
        ns["Is"] = lambda x: x
        got, old = eval(seg, ns), eval(render_tree(c["tree"]), ns)
        out["eq_old"] = bool(got == old) and same_types(got, old)
    except Exception as e:  # noqa
        out["error"] = f"{type(e).__name__}: {e}"
    return out


def oracle_never(c, o):
    """C05 / C10 / C04 on a snapshot that is never compared, without the model"""
    if any(t[1] != "ok" for t in o["tests"]):
        return f"the test raised: {o['tests']}"
    if not o["eq_old"]:
        return "the value of a never-compared snapshot changed"
    if "update" not in c["flags"] and o["after"] != o["source"]:
        return f"the file was changed although update is not approved (flags {c['flags']})"
    want, got = [i for i, _ in unms(c["tree"])], obs_unms(o["observed"])
    if want != got:
        return f"user-controlled parts {want} became {got}"
    return None


def check_never(ctx, n, label):
    from .core import coq_eval_shards, pmap
    cases = [gen_never(ctx.rng) for _ in range(n)]
    outs = pmap(run_never, cases, chunksize=8)
    terms, idx = [], []
    for i, (c, o) in enumerate(zip(cases, outs)):
        text = render_tree(c["tree"])
        ctx.count(("never", text, c["flags"]), "update" in c["flags"])
        if o["session_exc"] or "error" in o:
            ctx.report(f"{label} (never-compared nested value): run failed: {o['session_exc'] or o.get('error')}: {text} flags {c['flags']}", {"kind": "never", "case": c, "repr": repr(c)})
            continue
        why = oracle_never(c, o)
        if why:
            ctx.report(f"{label} oracle (never-compared nested value): {why}: {text} flags {c['flags']} -> {o.get('arg')}", {"kind": "never", "case": c, "repr": repr(c)})
            continue
        terms.append(f"({g_bool('update' in c['flags'])}, {g_tree(c['tree'])}, {g_oshape(o['observed'])})")
        idx.append(i)
    bad = coq_eval_shards(ctx, "undecided", REQ, "ucase", terms, "mismatchesU ct", preamble=g_ct())
    ctx.coverage["traces_validated_against_impl"] += len(terms)
    ctx.coverage["correspondence"]["never_compared"] = {"cases": len(terms), "mismatches": len(bad), "with_update": sum("update" in c["flags"] for c in cases)}
    for j in bad[:10]:
        c, o = cases[idx[j]], outs[idx[j]]
        ctx.report(f"Model/Undecided.v and implementation differ (oracle silent): {render_tree(c['tree'])} flags {c['flags']} -> {o['arg']}", {"kind": "never", "case": c, "repr": repr(c)},
                   no_input=True, kind="correspondence")


# ----------------------------------------------------------------------------- C08: a second run is a no-op (oracle on the real code)
def run_twice(c):
    src = program(c)
    r1 = driver.run_inproc({"test_a.py": src}, c["flags1"], block_black=True)
    out = {"session_exc": r1["session_exc"], "source": src}
    if r1["session_exc"]:
        return out
    mid = r1["files"]["test_a.py"].decode()
    r2 = driver.run_inproc({"test_a.py": mid}, c["flags2"], block_black=True)
    out.update({"session_exc2": r2["session_exc"], "mid": mid, "after": r2["files"]["test_a.py"].decode(), "reported2": sorted(r2["reported"]),
                "tests2": [t[2][:200] for t in r2["tests"] if t[2] != "ok"]})
    return out


def second_run_oracle(c, o):
    if o.get("session_exc") or o.get("session_exc2"):
        return f"a run failed: {o.get('session_exc') or o.get('session_exc2')}"
    try:
        arg1 = ast.get_source_segment(o["mid"], snapshot_arg(o["mid"])[1])
    except Exception as e:  # noqa
        return f"first run left an unusable file: {e}"
    if o["after"] != o["mid"]:
        arg2 = ast.get_source_segment(o["after"], snapshot_arg(o["after"])[1])
        return f"the second run ({c['flags2']}) changed the file again: {arg1} -> {arg2}"
    if o["reported2"]:
        return f"the second run reports {o['reported2']} for {arg1}"
    if o["tests2"]:
        return f"the second run fails: {o['tests2'][0]}"
    return None


def check_second_run(ctx, n, label):
    from .core import pmap
    cases = []
    for _ in range(n):
        c = gen_case(ctx.rng, unm_choices=(0,))
        c["flags1"] = ("fix", "update") + tuple(x for x in ("create", "trim") if ctx.rng.random() < 0.5)
        c["flags2"] = tuple(x for x in ("create", "fix", "trim", "update") if ctx.rng.random() < 0.6)
        cases.append(c)
    for c, o in zip(cases, pmap(run_twice, cases, chunksize=8)):
        ctx.count(("nest-twice", render_tree(c["tree"]), render_val(c["new"]), c["flags1"], c["flags2"]), not veq(tree_value(c["tree"]), c["new"]))
        why = second_run_oracle(c, o)
        if why:
            ctx.report(f"{label} oracle (nested value, second run): {why}: {render_tree(c['tree'])} observed {render_val(c['new'])} first run {c['flags1']}",
                       {"kind": "nest-twice", "case": c, "repr": repr(c)})
    ctx.coverage["oracle"]["nested_second_runs"] = n


def run_never_twice(c):
    src = program_never(c)
    r1 = driver.run_inproc({"test_a.py": src}, ("update",), block_black=True)
    out = {"session_exc": r1["session_exc"], "source": src}
    if r1["session_exc"]:
        return out
    mid = r1["files"]["test_a.py"].decode()
    r2 = driver.run_inproc({"test_a.py": mid}, c["flags"], block_black=True)
    out.update({"session_exc2": r2["session_exc"], "mid": mid, "after": r2["files"]["test_a.py"].decode(), "reported2": sorted(r2["reported"]),
                "tests2": [t[2][:200] for t in r2["tests"] if t[2] != "ok"]})
    return out


def check_never_twice(ctx, n, label):
    """C08 on never-compared snapshots: after a run with update a second run (any approved set) changes and reports nothing"""
    from .core import pmap
    cases = [gen_never(ctx.rng) for _ in range(n)]
    for c, o in zip(cases, pmap(run_never_twice, cases, chunksize=8)):
        ctx.count(("never-twice", render_tree(c["tree"]), c["flags"]), True)
        why = second_run_oracle({"flags2": c["flags"]}, o)
        if why:
            ctx.report(f"{label} oracle (never-compared nested value, run twice): {why}", {"kind": "never-twice", "case": c, "repr": repr(c)})
    ctx.coverage["oracle"]["never_compared_run_twice"] = n


def replay_never(case):
    if case.get("kind") == "never-twice":
        c = eval(case["repr"])
        o = run_never_twice(c)
        print(o.get("mid"), o.get("after"), o.get("reported2"))
        return second_run_oracle({"flags2": c["flags"]}, o) is None
    c = eval(case["repr"])
    o = run_never(c)
    print(o.get("source"), o.get("arg"), o.get("session_exc"), o.get("error"))
    return not (o["session_exc"] or "error" in o) and oracle_never(c, o) is None


def replay_case(case):
    if case.get("kind") == "nest-twice":
        c = eval(case["repr"])
        o = run_twice(c)
        why = second_run_oracle(c, o)
        print(o.get("mid", "")[-300:], "\n->", o.get("after", "")[-300:], "\noracle:", why)
        return why is None
    c = eval(case["repr"])
    o = run_case(c)
    print(render_tree(c["tree"]), "observed", render_val(c["new"]), "flags", c["flags"], "->", o.get("arg"), o.get("error"), o.get("session_exc"))
    if o["session_exc"] or "error" in o:
        return False
    why = oracle(c, o, case.get("label", "DEV"))
    print("oracle:", why)
    return why is None or why[1] is not None
