"""Correspondence between Model/SnapOps.v and the implementation on single-site operation scripts,
shared by C05, C06, C07 and C14."""
from __future__ import annotations

from . import driver, snapgen
from .core import Ctx, coq_eval_shards, pmap


def _run_one(case):
    src = snapgen.render_test(case)
    try:
        res = driver.run_inproc({"test_a.py": src}, case["flags"])
        obs = snapgen.observe(case, res)
        obs["source"] = src
        obs["after"] = res["files"]["test_a.py"].decode("utf-8", "replace")
        obs["session_tb"] = res.get("session_tb")
        return obs
    except Exception as e:  # noqa  (e.g. the rewritten file cannot be parsed)
        return {"error": f"{type(e).__name__}: {e}", "source": src}


def run_cases(cases):
    return pmap(_run_one, cases, chunksize=8)


def correspond(ctx: Ctx, cases, obs_list, name="snapops"):
    """returns the set of indices (into cases) on which model and implementation differ;
    cases whose observation cannot be expressed in the model universe count as differing."""
    terms, idx, bad = [], [], set()
    for i, (c, o) in enumerate(zip(cases, obs_list)):
        if "error" in o or o.get("session_exc"):
            bad.add(i)
            continue
        try:
            terms.append(snapgen.g_case(c, o))
            idx.append(i)
        except ValueError:
            bad.add(i)
    mm = coq_eval_shards(ctx, name, "Model.SnapOps Corr.SnapOpsCorr", "case", terms, "mismatches")
    for j in mm:
        bad.add(idx[j])
    ctx.coverage["traces_validated_against_impl"] += len(cases)
    return bad


def case_key(case):
    return (case["old"], case["flags"], tuple(map(str, case["ops"])))


def nontrivial(case):
    """non-trivial = at least two operations, or an existing value that is not canonical / needs a change"""
    return len(case["ops"]) >= 2 or (case["old"] is not None and case["old"][0] != "atom")
