"""Value universe shared by the end-to-end oracles: expression trees, rendering as observed-value source,
rendering as hand-written (noisy) snapshot source, structural edits."""
from __future__ import annotations

import random

RICH_HEADER = '''from dataclasses import dataclass, field
from enum import Enum, Flag, auto
from collections import namedtuple, defaultdict
import attrs
import pydantic
from inline_snapshot import snapshot, Is, HasRepr, external, outsource


class Color(Enum):
    red = 1
    green = 2
    blue = 3


class Perm(Flag):
    r = auto()
    w = auto()
    x = auto()


@dataclass
class DC:
    a: object
    b: object = 5
    c: list = field(default_factory=list)


@attrs.define
class AT:
    x: object
    y: object = 3


class PM(pydantic.BaseModel):
    p: object
    q: object = None


NT = namedtuple("NT", "u v", defaults=[7])


class Weird:
    def __init__(self, n):
        self.n = n

    def __repr__(self):
        return f"<Weird {self.n}>"

    def __eq__(self, other):
        if not isinstance(other, Weird):
            return NotImplemented
        return other.n == self.n

    def __hash__(self):
        return hash(self.n)

'''

SIMPLE_HEADER = "from inline_snapshot import snapshot, Is\n\n"

STR_POOL = ["", "a", "b c", "it's", 'say "hi"', "x\ny", "tab\there", "back\\slash", "é", "\U0001F40D", "line1\nline2\n", " lead", "trail ",
            "q'\"both", "\x00nul", "a\rb", "long " * 6, "'a' \"b\"", "it's \"x\"",
            # multi-line texts with blanks in front of punctuation (what a "remove the blanks untokenize adds" clean-up would also hit inside a literal)
            "name = value\nkey : 1\n", "f (x) , y\n[ a ]\n{ b }\n", "Hello (world) = 1 , 2\n  indented : yes"]
BYTES_POOL = [b"", b"a", b"\x00\xff", b"it's", b'q"', b"nl\n"]
KEY_STR = ["k", "key2", "z z", "a'b"]


def gen_hashable(rng, depth=0, rich=False):
    r = rng.random()
    if r < 0.4:
        return ("int", rng.randint(2, 40))
    if r < 0.7:
        return ("str", rng.choice(KEY_STR + STR_POOL[:6]))
    if r < 0.78:
        return ("bytes", rng.choice(BYTES_POOL))
    if r < 0.82:
        return ("none",)
    if r < 0.9 and depth < 2:
        return ("tuple", [gen_hashable(rng, depth + 1, rich) for _ in range(rng.randint(0, 3))])
    if rich and r < 0.96:
        return ("enum", rng.choice(["red", "green", "blue"]))
    return ("int", rng.randint(41, 60))


def _distinct(items):
    seen, out = set(), []
    for it in items:
        k = repr(it)
        if k not in seen:
            seen.add(k)
            out.append(it)
    return out


def gen_value(rng, depth=0, rich=False, maxdepth=3, floats=False):
    r = rng.random()
    leafp = 0.35 + 0.2 * depth
    if depth >= maxdepth or r < leafp:
        r = rng.random()
        if r < 0.35:
            return ("int", rng.choice([0, 1, -1, 2, 7, 10, 255, -300, 12345678901234567890]))
        if r < 0.6:
            return ("str", rng.choice(STR_POOL))
        if r < 0.68:
            return ("bool", rng.random() < 0.5)
        if r < 0.74:
            return ("none",)
        if r < 0.82:
            return ("bytes", rng.choice(BYTES_POOL))
        if rich and r < 0.88:
            return ("enum", rng.choice(["red", "green", "blue"]))
        if rich and r < 0.91:
            return ("flag", sorted(rng.sample(["r", "w", "x"], rng.randint(0, 3))))        # also Perm(0): no flag set
        if rich and r < 0.93:
            return ("class", rng.choice(["DC", "Color", "int", "str"]))
        if rich and r < 0.96:
            return ("weird", rng.randint(0, 5))
        if floats and r < 0.975:
            return ("float", rng.choice([0.5, -1.25, 3.0, 1e100]))
        if floats and r < 0.99:
            return ("complex", rng.choice([1 + 2j, -1.5j, 2 + 0j]))
        return ("int", rng.randint(-5, 5))
    r = rng.random()
    n = rng.choice([0, 1, 1, 2, 2, 3, 4])
    sub = lambda: gen_value(rng, depth + 1, rich, maxdepth, floats)  # noqa
    if r < 0.3:
        return ("list", [sub() for _ in range(n)])
    if r < 0.45:
        return ("tuple", [sub() for _ in range(n)])
    if r < 0.7:
        keys = _distinct([gen_hashable(rng, 1, rich) for _ in range(n)])
        return ("dict", [(k, sub()) for k in keys])
    if r < 0.78:
        return ("set", _distinct([gen_hashable(rng, 1, rich) for _ in range(n)]))
    if r < 0.82:
        return ("frozenset", _distinct([gen_hashable(rng, 1, rich) for _ in range(n)]))
    if not rich:
        return ("list", [sub() for _ in range(n)])
    if r < 0.87:
        d = {"a": sub()}
        if rng.random() < 0.6:
            d["b"] = rng.choice([("int", 5), sub()])
        if rng.random() < 0.4:
            d["c"] = ("list", [sub() for _ in range(rng.randint(0, 2))])
        return ("dc", d)
    if r < 0.91:
        d = {"x": sub()}
        if rng.random() < 0.6:
            d["y"] = rng.choice([("int", 3), sub()])
        return ("attrs", d)
    if r < 0.94:
        d = {"p": sub_plain(rng, depth + 1)}
        if rng.random() < 0.6:
            d["q"] = rng.choice([("none",), sub_plain(rng, depth + 1)])
        return ("pyd", d)
    if r < 0.97:
        d = {"u": sub()}
        if rng.random() < 0.6:
            d["v"] = rng.choice([("int", 7), sub()])
        return ("nt", d)
    keys = _distinct([gen_hashable(rng, 1, False) for _ in range(rng.randint(0, 2))])
    return ("dd", rng.choice(["list", "int"]), [(k, ("list", [("int", 1)])) for k in keys])


def sub_plain(rng, depth):
    """pydantic fields: keep to plain data (object-typed fields accept anything, but keep reprs simple)"""
    return gen_value(rng, max(depth, 2), rich=False)


def render(e):
    """source text of the value as a test would construct it (canonical style)"""
    t = e[0]
    if t in ("int", "bool", "str", "bytes", "float", "complex"):
        return repr(e[1])
    if t == "none":
        return "None"
    if t == "list":
        return "[" + ", ".join(render(x) for x in e[1]) + "]"
    if t == "tuple":
        return "(" + ", ".join(render(x) for x in e[1]) + ("," if len(e[1]) == 1 else "") + ")"
    if t == "dict":
        return "{" + ", ".join(f"{render(k)}: {render(v)}" for k, v in e[1]) + "}"
    if t == "set":
        return "{" + ", ".join(render(x) for x in e[1]) + "}" if e[1] else "set()"
    if t == "frozenset":
        return "frozenset({" + ", ".join(render(x) for x in e[1]) + "})" if e[1] else "frozenset()"
    if t == "enum":
        return f"Color.{e[1]}"
    if t == "flag":
        return " | ".join(f"Perm.{n}" for n in e[1]) if e[1] else "Perm(0)"
    if t == "class":
        return e[1]
    if t == "weird":
        return f"Weird({e[1]})"
    if t in ("dc", "attrs", "pyd", "nt"):
        name = {"dc": "DC", "attrs": "AT", "pyd": "PM", "nt": "NT"}[t]
        return name + "(" + ", ".join(f"{k}={render(v)}" for k, v in e[1].items()) + ")"
    if t == "dd":
        return f"defaultdict({e[1]}, {{" + ", ".join(f"{render(k)}: {render(v)}" for k, v in e[2]) + "})"
    if t == "is":
        return f"Is({e[1]})"
    if t == "raw":
        return e[1]
    raise ValueError(t)


def to_py(e, ns):
    return eval(render(e), ns)


def namespace(header):
    ns = {}
    exec(header, ns)
    return ns


# ---- hand-written variants of a value (same value, other tokens / layout)
DUPKEYS = [0.0]      # probability that a hand-written dict display repeats a key (the last entry wins); set by the caller


def render_noisy(rng: random.Random, e, p=0.35, parens=False, comments=True, depth=0):
    txt = _render_noisy(rng, e, p, parens, comments, depth)
    if parens and depth > 0 and rng.random() < 0.25:
        k = rng.choice([1, 1, 2])
        txt = "(" * k + txt + ")" * k
    return txt


def _render_noisy(rng: random.Random, e, p=0.35, parens=False, comments=True, depth=0):
    t = e[0]
    ws = lambda: rng.choice(["", "", " ", "  "])  # noqa
    if t == "int" and rng.random() < p and abs(e[1]) < 1000:
        a = rng.randint(0, 3)
        txt = f"{e[1] - a}+{a}"
        if e[1] - a < 0:
            txt = f"{a}{e[1] - a}" if a else repr(e[1])
        if parens and rng.random() < 0.3:
            txt = f"({txt})"
        return txt
    if t == "str" and rng.random() < p and "\n" not in e[1] and e[1].isprintable() and "\\" not in e[1]:
        s = e[1]
        if "'" not in s and '"' not in s:
            r = rng.random()
            if r < 0.5:
                return '"' + s + '"'
            if len(s) >= 2 and r < 0.8:
                k = rng.randint(1, len(s) - 1)
                return f"{s[:k]!r} {s[k:]!r}"
        return repr(s)
    if t in ("list", "tuple", "dict", "set"):
        items = e[1]
        if t == "set" and not items:
            return "set()"
        if t == "dict":
            parts = [f"{render_noisy(rng, k, 0.0)}{ws()}:{ws()}{render_noisy(rng, v, p, parens, comments, depth + 1)}" for k, v in items]
            if parts and DUPKEYS[0] and rng.random() < DUPKEYS[0]:
                # a shadowed entry: the same key once more further left with another value (legal Python, the last entry wins)
                j = rng.randrange(len(parts))
                shadow = rng.choice(["0", "'shadowed'", "[]"])
                parts.insert(rng.randint(0, j), render_noisy(rng, items[j][0], 0.0) + ": " + shadow)
        elif t == "set":
            parts = [render_noisy(rng, x, 0.0) for x in items]
        else:
            parts = [render_noisy(rng, x, p, parens, comments, depth + 1) for x in items]
        op, cl = {"list": "[]", "tuple": "()", "dict": "{}", "set": "{}"}[t]
        multiline = rng.random() < 0.3 and items
        if multiline:
            ind = "    " * (depth + 3)
            body = ""
            for i, part in enumerate(parts):
                cm = f"  # c{i}" if comments and rng.random() < 0.3 else ""
                body += f"\n{ind}{part},{cm}"
            return op + body + f"\n{ind[:-4]}" + cl
        sep = rng.choice([", ", ",", " , "])
        body = sep.join(parts)
        if t == "tuple" and len(parts) == 1:
            body += ","
        elif parts and rng.random() < 0.2:
            body += ","
        return op + ws() + body + ws() + cl
    if t in ("dc", "attrs", "pyd", "nt"):
        name = {"dc": "DC", "attrs": "AT", "pyd": "PM", "nt": "NT"}[t]
        return name + "(" + ", ".join(f"{k}={render_noisy(rng, v, p, parens, comments, depth + 1)}" for k, v in e[1].items()) + ")"
    return render(e)


# ---- edits
def mutate(rng, e, rich=False, depth=0):
    """a value of the same top-level type (mostly) that differs somewhere"""
    t = e[0]
    r = rng.random()
    if t in ("list", "tuple"):
        items = list(e[1])
        k = rng.random()
        if items and k < 0.25:
            del items[rng.randrange(len(items))]
        elif k < 0.5:
            items.insert(rng.randint(0, len(items)), gen_value(rng, depth + 2, rich))
        elif items and k < 0.85:
            i = rng.randrange(len(items))
            items[i] = mutate(rng, items[i], rich, depth + 1)
        elif len(items) >= 2:
            i, j = rng.sample(range(len(items)), 2)
            items[i], items[j] = items[j], items[i]
        else:
            items.append(gen_value(rng, depth + 2, rich))
        return (t, items)
    if t == "dict":
        items = list(e[1])
        k = rng.random()
        if items and k < 0.25:
            del items[rng.randrange(len(items))]
        elif k < 0.5:
            nk = gen_hashable(rng, 1, rich)
            if repr(nk) not in {repr(x) for x, _ in items}:
                items.insert(rng.randint(0, len(items)), (nk, gen_value(rng, depth + 2, rich)))
            else:
                items = [(x, mutate(rng, v, rich, depth + 1)) if repr(x) == repr(nk) else (x, v) for x, v in items]
        elif items:
            i = rng.randrange(len(items))
            items[i] = (items[i][0], mutate(rng, items[i][1], rich, depth + 1))
        else:
            items.append((("str", "new"), ("int", 1)))
        return (t, items)
    if t in ("dc", "attrs", "pyd", "nt"):
        d = dict(e[1])
        f = rng.choice(list(d))
        if t == "pyd":
            d[f] = mutate(rng, d[f], False, max(depth + 1, 2))
        else:
            d[f] = mutate(rng, d[f], rich, depth + 1)
        return (t, d)
    if t == "int":
        return ("int", e[1] + rng.choice([1, -1, 10]))
    if t == "str":
        return ("str", e[1] + rng.choice(["!", "x", "\n", "'"]))
    if t == "bool":
        return ("bool", not e[1])
    if t == "bytes":
        return ("bytes", e[1] + b"!")
    if t in ("set", "frozenset"):
        items = list(e[1])
        nk = gen_hashable(rng, 1, rich)
        if repr(nk) in {repr(x) for x in items}:
            items = [x for x in items if repr(x) != repr(nk)]
        else:
            items.append(nk)
        return (t, items)
    if t == "enum":
        return ("enum", {"red": "green", "green": "blue", "blue": "red"}[e[1]])
    if t == "weird":
        return ("weird", e[1] + 1)
    return ("int", rng.randint(100, 200))


def depth_of(e):
    t = e[0]
    if t in ("list", "tuple", "set", "frozenset"):
        return 1 + max([depth_of(x) for x in e[1]] + [0])
    if t == "dict":
        return 1 + max([depth_of(v) for _, v in e[1]] + [0])
    if t in ("dc", "attrs", "pyd", "nt"):
        return 1 + max([depth_of(v) for v in e[1].values()] + [0])
    return 0


def nontrivial(e):
    """depth >= 2, or a string needing an escape, or a non-builtin type"""
    def walk(x):
        t = x[0]
        if t in ("enum", "flag", "class", "weird", "dc", "attrs", "pyd", "nt", "dd"):
            return True
        if t == "str" and (not x[1].isprintable() or "'" in x[1] or "\\" in x[1]):
            return True
        if t in ("list", "tuple", "set", "frozenset"):
            return any(walk(y) for y in x[1])
        if t == "dict":
            return any(walk(k) or walk(v) for k, v in x[1])
        return False
    return depth_of(e) >= 2 or walk(e)
