"""Implementation drivers.

run_inproc  : the core of inline_snapshot.testing.Example.run_inline, but returning everything
              instead of asserting (per-test outcome and counters, per-comparison results, changes,
              recorded replacements, new_code text, session-phase exception, final bytes).
run_pytest  : a real `python -m pytest` session in a scratch project (junit xml, stdin, env).
Both import the implementation from /repo/src (PYTHONPATH), i.e. the current working tree.
"""
from __future__ import annotations

import itertools
import os
import shutil
import subprocess as sp
import sys
import tempfile
import traceback
import types
import warnings
import xml.etree.ElementTree as ET
from pathlib import Path

from .core import PY, clean_env

_counter = itertools.count()


def _summ_exc(e):
    return f"{type(e).__name__}: {str(e)[:200]}"


def change_summary(c):
    d = {"flag": c.flag, "type": type(c).__name__}
    node = getattr(c, "node", None)
    if node is not None and hasattr(node, "lineno"):
        d["pos"] = (node.lineno, node.col_offset, getattr(node, "end_lineno", None), getattr(node, "end_col_offset", None))
        d["node"] = type(node).__name__
    for k in ("new_code", "position", "arg_pos", "arg_name"):
        if hasattr(c, k):
            v = getattr(c, k)
            d[k] = list(v) if isinstance(v, tuple) else v
    return d


def run_inproc(files, flags, *, format_command=None, block_black=False, pyproject=None,
               workdir=None, keep=False, trace_calls=False, run_tests=True, storage_files=None, active=True, black_raises=False, edits=False):
    """files: {name: str|bytes}.  flags: iterable of category names.
    Returns a dict (see keys below).  Never raises for failures of the code under test."""
    from inline_snapshot import _config, _problems
    from inline_snapshot._change import apply_all
    from inline_snapshot._external import DiscStorage
    from inline_snapshot._flags import Flags
    from inline_snapshot._global_state import snapshot_env
    from inline_snapshot._rewrite_code import ChangeRecorder

    flags = {f for f in flags if f}
    base = Path(workdir or tempfile.mkdtemp(prefix=f"ip{next(_counter)}-", dir=os.environ.get("VERIF_TMP") or "/var/tmp"))
    base.mkdir(parents=True, exist_ok=True)
    res = {"tests": [], "module_exc": [], "R": {}, "session_exc": None, "reported": [], "snapshots": [], "obsolete": None,
           "replacements": {}, "new_code": {}, "raw_new_code": {}, "read_text": {}, "files": {}, "warnings": [], "problems": [], "dir": str(base)}
    old_config = _config.config
    _config.config = _config.Config()
    _config.config.format_command = format_command
    _problems.all_problems = set()
    saved_black = sys.modules.get("black", "absent")
    registered = []
    if block_black:
        sys.modules["black"] = None
    saved_format_str = None
    if black_raises:
        import black as _black

        def _boom(*a, **k):
            raise RuntimeError("injected black failure")
        saved_format_str = _black.format_str
        _black.format_str = _boom
    saved_cwd = os.getcwd()
    try:
        if pyproject is not None:
            (base / "pyproject.toml").write_text(pyproject)
            os.chdir(base)      # black's options are looked up from the current directory (like a session started in the project)
        for name, content in files.items():
            p = base / name
            p.parent.mkdir(parents=True, exist_ok=True)
            p.write_bytes(content if isinstance(content, bytes) else content.encode("utf-8", "surrogatepass"))
        if storage_files:
            (base / ".storage").mkdir(exist_ok=True)
            for n, data in storage_files.items():
                (base / ".storage" / n).write_bytes(data)
        with snapshot_env() as state:
            state.update_flags = Flags(flags)
            state.storage = DiscStorage(base / ".storage")
            state.active = active
            try:
                with warnings.catch_warnings(record=True) as w:
                    warnings.simplefilter("always")
                    for name in sorted(files):
                        if not name.endswith(".py"):
                            continue
                        fn = base / name
                        mod = types.ModuleType(Path(name).stem)
                        mod.__file__ = str(fn)
                        g = mod.__dict__
                        sys.modules[mod.__name__] = mod
                        registered.append(mod.__name__)
                        try:
                            exec(compile(fn.read_text("utf-8-sig"), str(fn), "exec"), g)
                        except BaseException as e:  # noqa
                            res["module_exc"].append((name, _summ_exc(e)))
                            if "R" in g:
                                res["R"][name] = g["R"]
                            continue
                        if run_tests:
                            for k, v in list(g.items()):
                                if (k.startswith("test_") or k == "test") and callable(v):
                                    state.missing_values = 0
                                    state.incorrect_values = 0
                                    try:
                                        v()
                                        out = "ok"
                                    except BaseException as e:  # noqa
                                        out = _summ_exc(e)
                                    res["tests"].append((name, k, out, state.missing_values, state.incorrect_values))
                        if "R" in g:
                            res["R"][name] = g["R"]
                res["warnings"] = [(type(x.message).__name__, str(x.message)[:80]) for x in w]
            finally:
                state.active = False
            try:
                changes = []
                for s in state.snapshots.values():
                    cs = list(s._changes())
                    v = s._value
                    res["snapshots"].append({
                        "kind": type(v).__name__,
                        "line": getattr(getattr(s._expr, "node", None), "lineno", None) if s._expr is not None else None,
                        "col": getattr(getattr(s._expr, "node", None), "col_offset", None) if s._expr is not None else None,
                        "file": Path(v._file.filename).name if getattr(v._file, "_source", None) is not None else None,
                        "flags": sorted({c.flag for c in cs}),
                        "changes": [change_summary(c) for c in cs],
                    })
                    changes += cs
                res["reported"] = sorted({c.flag for c in changes})
                # what without_obsolete_changes is given and what it keeps (correspondence with Model/Obsolete.v)
                try:
                    from inline_snapshot._change import Delete as _Delete, Replace as _Replace, without_obsolete_changes as _woc
                    approved = [c for c in changes if c.flag in flags]
                    ids = {}

                    def _nid(n):
                        return ids.setdefault(id(n), len(ids))
                    desc = []
                    for c in approved:
                        node = getattr(c, "node", None)
                        chain = []
                        while node is not None:
                            chain.append(_nid(node))
                            node = getattr(node, "parent", None)
                        desc.append((isinstance(c, (_Delete, _Replace)) and getattr(c, "node", None) is not None, chain))
                    kept = _woc(list(approved))
                    res["obsolete"] = {"changes": desc, "kept": [i for i, c in enumerate(approved) if any(c is k for k in kept)]}
                except Exception as e:  # noqa
                    res["obsolete"] = {"error": f"{type(e).__name__}: {e}"}
                rec = ChangeRecorder()
                apply_all([c for c in changes if c.flag in flags], rec)
                for f in rec.files():
                    nm = str(Path(f.filename).relative_to(base))
                    res["replacements"][nm] = sorted(
                        ((r.range.start.lineno, r.range.start.col_offset), (r.range.end.lineno, r.range.end.col_offset), r.text)
                        for r in f.replacements)
                    res["new_code"][nm] = f.new_code()
                    # the same without any formatter: what asttokens.util.replace produces
                    import inline_snapshot._rewrite_code as _rc
                    saved = (_rc.format_code, _rc.enforce_formatting)
                    _rc.format_code = lambda text, filename, *a, **k: text
                    _rc.enforce_formatting = lambda: True
                    try:
                        res["raw_new_code"][nm] = f.new_code()
                    finally:
                        _rc.format_code, _rc.enforce_formatting = saved
                    with open(f.filename, encoding="utf-8", newline="") as fh:   # no newline translation (as SourceFile.new_code)
                        res["read_text"][nm] = fh.read().removeprefix("\ufeff")     # the byte order mark is not part of the text that is edited
                if edits and len(files) == 1:
                    # the tree of the snapshot arguments, the surviving changes and the recorded replacement ranges (correspondence with Model/Edits.v)
                    from . import editscorr as _ec
                    try:
                        from inline_snapshot._change import without_obsolete_changes as _woc2
                        res["edits"] = _ec.extract(_woc2([c for c in changes if c.flag in flags]), next(iter(res["replacements"].values()), []))
                    except _ec.Skip as e:
                        res["edits"] = {"skip": str(e)}
                rec.fix_all()
            except BaseException as e:  # noqa
                res["session_exc"] = _summ_exc(e)
                res["session_tb"] = traceback.format_exc()[-1500:]
        res["problems"] = sorted(_problems.all_problems)
        for name in files:
            res["files"][name] = (base / name).read_bytes()
        st = base / ".storage"
        res["storage"] = sorted(p.name for p in st.iterdir()) if st.exists() else []
    finally:
        _config.config = old_config
        _problems.all_problems = set()
        for m in registered:
            sys.modules.pop(m, None)
        os.chdir(saved_cwd)
        if saved_format_str is not None:
            import black as _black
            _black.format_str = saved_format_str
        if block_black:
            if saved_black == "absent":
                sys.modules.pop("black", None)
            else:
                sys.modules["black"] = saved_black
        if not keep and workdir is None:
            shutil.rmtree(base, ignore_errors=True)
    return res


def run_inproc_seq(files, flag_sets, **kw):
    """successive runs; each run starts from the files the previous one left. Returns list of results."""
    out = []
    cur = dict(files)
    for fl in flag_sets:
        r = run_inproc(cur, fl, **kw)
        out.append(r)
        cur = {k: v for k, v in r["files"].items()}
    return out


# ----------------------------------------------------------------------------- real pytest sessions

def write_project(d: Path, files):
    for name, content in files.items():
        p = d / name
        p.parent.mkdir(parents=True, exist_ok=True)
        p.write_bytes(content if isinstance(content, bytes) else content.encode("utf-8", "surrogatepass"))


def read_project(d: Path):
    out = {}
    for p in sorted(d.rglob("*")):
        if p.is_file() and "__pycache__" not in p.parts and ".pytest_cache" not in p.parts and p.name != "junit.xml":
            out[str(p.relative_to(d))] = p.read_bytes()
    return out


def run_pytest(d: Path, args=(), env=None, stdin=b"", timeout=180, keep_ci=False, tty=False, plugins=(), cwd=None):
    """one real session in project dir d. returns dict(rc, stdout, stderr, outcomes{test: outcome})"""
    junit = d / "junit.xml"
    if junit.exists():
        junit.unlink()
    e = clean_env(env, keep_ci=keep_ci)
    if plugins:
        from .core import VERIF
        e["PYTHONPATH"] = f"{VERIF}/harness/plugins:{e['PYTHONPATH']}"
    if tty:
        e["FORCE_COLOR"] = "true"
    else:
        e.pop("FORCE_COLOR", None)
    cmd = [PY, "-m", "pytest", "-p", "no:cacheprovider", "-p", "no:randomly", "-q", f"--junitxml={junit}", "-o", "junit_family=xunit1"]
    for p in plugins:
        cmd += ["-p", p]
    cmd += list(args)
    for attempt in range(2):
        try:
            r = sp.run(cmd, cwd=cwd or d, capture_output=True, env=e, input=stdin, timeout=timeout)
            break
        except sp.TimeoutExpired:
            if attempt == 1:
                return {"rc": None, "stdout": "", "stderr": "timeout", "outcomes": {}, "infra_error": True}
    outcomes = {}
    if junit.exists():
        try:
            t = ET.parse(junit)
            for tc in t.iter("testcase"):
                name = f"{tc.get('classname')}::{tc.get('name')}"
                kinds = [c.tag for c in tc if c.tag in ("failure", "error", "skipped")]
                new = "passed" if not kinds else "+".join(sorted(set(kinds)))
                if name in outcomes and outcomes[name] != new:   # call + teardown entries
                    new = "+".join(sorted(set(outcomes[name].split("+") + new.split("+")) - {"passed"})) or "passed"
                outcomes[name] = new
        except ET.ParseError:
            pass
        junit.unlink()
    return {"rc": r.returncode, "stdout": r.stdout.decode("utf-8", "replace"), "stderr": r.stderr.decode("utf-8", "replace"),
            "outcomes": outcomes}


def scratch_dir(prefix="proj-"):
    return Path(tempfile.mkdtemp(prefix=prefix, dir=os.environ.get("VERIF_TMP") or "/var/tmp"))
