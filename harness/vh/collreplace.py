"""Correspondence of Model/CollReplace.v with CollectionValue._get_changes for `x in snapshot(<value>)` whose previous value is no list display
(tuple, set, frozenset, dict): generated previous values (members small integers, optionally a user-controlled member) x tested values x the approved categories
(update_flags.trim is read while the change is computed); observed through the change the real code yields (category, members of the new list)."""
from __future__ import annotations

import ast

from . import driver
from .core import coq_eval_shards, g_Z, g_bool, g_list, g_opt, g_pair, pmap

FLAGSETS = [("fix",), ("fix", "trim"), ("trim",), (), ("create", "fix", "trim", "update"), ("update",)]


def gen_case(rng, i):
    shape = ["tuple", "set", "frozenset", "dict", "tuple_unm", "set", "tuple", "nested_unm"][i % 8]
    n = rng.randint(1, 5)
    # members up to 40: the iteration order of a small set of such integers is not their sorted order
    old = rng.sample(range(0, 40), n)
    tested = [rng.randint(0, 45) if rng.random() < 0.5 else rng.choice(old) for _ in range(rng.randint(1, 4))]
    flags = FLAGSETS[rng.randrange(len(FLAGSETS))]
    return {"shape": shape, "old": old, "tested": tested, "flags": flags}


def render(c):
    o = c["old"]
    if c["shape"] == "tuple":
        lit = "(" + ", ".join(map(str, o)) + ("," if len(o) == 1 else "") + ")"
    elif c["shape"] == "set":
        lit = "{" + ", ".join(map(str, o)) + "}"
    elif c["shape"] == "frozenset":
        lit = "frozenset({" + ", ".join(map(str, o)) + "})"
    elif c["shape"] == "dict":
        lit = "{" + ", ".join(f"{k}: 'v{k}'" for k in o) + "}"
    elif c["shape"] == "tuple_unm":
        lit = "(" + ", ".join(["Is(X)"] + list(map(str, o[1:]))) + ",)"
    else:
        lit = "(" + ", ".join(["(Is(X), 0)"] + list(map(str, o[1:]))) + ",)"
    tested = ", ".join(map(str, c["tested"])) + ","
    return (f"from inline_snapshot import snapshot, Is\n\nX = {c['old'][0]}\n\n\ndef test_a():\n    for v in ({tested}):\n        R = v in snapshot({lit})\n")


def run_case(c):
    src = render(c)
    r = driver.run_inproc({"test_a.py": src}, c["flags"], block_black=True)
    out = {"source": src, "session_exc": r["session_exc"], "module_exc": r["module_exc"], "tests": [(t[1], t[2][:200]) for t in r["tests"]], "obs": "?"}
    try:
        snaps = [s for s in r["snapshots"] if s["kind"] == "CollectionValue"]
        ch = snaps[0]["changes"] if snaps else []
        if not ch:
            out["obs"] = None
        elif len(ch) == 1 and ch[0]["type"] == "Replace" and ch[0]["flag"] in ("fix", "trim"):
            out["obs"] = (ch[0]["flag"] == "fix", [int(x) for x in ast.literal_eval(ch[0]["new_code"])])
        else:
            out["obs"] = ("other", ch)
    except Exception as e:  # noqa
        out["obs"] = ("error", f"{type(e).__name__}: {e}")
    out["after"] = r["files"]["test_a.py"].decode()
    return out


def distinct(xs):
    out = []
    for x in xs:
        if x not in out:
            out.append(x)
    return out


def g_case(c, o):
    unm = c["shape"] in ("tuple_unm", "nested_unm")
    obs = o["obs"]
    return g_pair(g_bool(unm), g_bool("trim" in c["flags"]), g_bool(c["shape"] in ("set", "frozenset")), g_list(c["old"], g_Z), g_list(distinct(c["tested"]), g_Z),
                  g_opt(obs, lambda x: g_pair(g_bool(x[0]), g_list(x[1], g_Z))))


def oracle(c, o):
    """the statements, directly on what was written"""
    unm = c["shape"] in ("tuple_unm", "nested_unm")
    F = set(c["flags"])
    try:
        tree = ast.parse(o["after"])
        call = [n for n in ast.walk(tree) if isinstance(n, ast.Call) and isinstance(n.func, ast.Name) and n.func.id == "snapshot"][0]
        arg = call.args[0]
    except Exception as e:  # noqa
        return f"rewritten file unusable: {e}"
    before = ast.parse(o["source"])
    barg = [n for n in ast.walk(before) if isinstance(n, ast.Call) and isinstance(n.func, ast.Name) and n.func.id == "snapshot"][0].args[0]
    changed = ast.dump(arg) != ast.dump(barg)
    if unm:
        return "a value with user-controlled members was rewritten" if changed else None
    if not changed:
        return None
    new = ast.literal_eval(arg)
    missing = [v for v in distinct(c["tested"]) if v not in c["old"]]
    if missing and "fix" not in F:
        return f"tested values are missing, fix is not approved, but the value was rewritten to {new}"
    if not missing and "trim" not in F:
        return f"nothing is missing, trim is not approved, but the value was rewritten to {new}"
    if any(v not in new for v in c["tested"]):
        return f"after the rewrite a tested value is still no member: {new}"
    if "trim" not in F and any(v not in new for v in c["old"]):
        return f"trim is not approved but members of the previous value were dropped: {c['old']} -> {new}"
    if "trim" in F and sorted(new) != sorted(distinct(c["tested"])):
        return f"trim is approved but the value holds other members than the tested ones: {new}"
    return None


def check_part(ctx, n, label):
    cases = [gen_case(ctx.rng, i) for i in range(n)]
    outs = pmap(run_case, cases, chunksize=8)
    terms, idx = [], []
    for i, (c, o) in enumerate(zip(cases, outs)):
        ctx.count(("collreplace", repr(c)), len(c["old"]) >= 2)
        ctx.dist("collreplace.shape=" + c["shape"])
        ctx.dist("collreplace.flags=" + (",".join(c["flags"]) or "none"))
        if o["session_exc"] or o["module_exc"]:
            ctx.report(f"{label} (`in` on a value that is no list display): run failed: {o['session_exc'] or o['module_exc']}", {"kind": "collreplace", "case": c})
            continue
        why = oracle(c, o)
        if why:
            ctx.report(f"{label} oracle (`in` on a value that is no list display, flags {c['flags']}): {why}", {"kind": "collreplace", "case": c, "after": o["after"]})
            continue
        if o["obs"] == "?" or (isinstance(o["obs"], tuple) and o["obs"][0] in ("other", "error")):
            ctx.report(f"{label}: the change of an `in` snapshot on a value that is no list display has an unexpected form: {o['obs']}", {"kind": "collreplace", "case": c},
                       no_input=True, kind="correspondence")
            continue
        terms.append(g_case(c, o))
        idx.append(i)
    bad = coq_eval_shards(ctx, "collreplace", "Model.CollReplace Corr.CollReplaceCorr", "case", terms, "mismatches")
    ctx.coverage["traces_validated_against_impl"] += len(terms)
    ctx.coverage["correspondence"]["collection_replace"] = {"cases": len(terms), "mismatches": len(bad)}
    for j in bad[:5]:
        c, o = cases[idx[j]], outs[idx[j]]
        ctx.report(f"Model/CollReplace.v and CollectionValue._get_changes differ (oracle silent): previous members {c['old']} ({c['shape']}), tested {c['tested']}, flags {c['flags']} -> {o['obs']}",
                   {"kind": "collreplace", "case": c}, no_input=True, kind="correspondence")


def replay_case(c):
    c = dict(c, flags=tuple(c["flags"]))
    o = run_case(c)
    print(o["after"], o["obs"])
    return oracle(c, o) is None and not o["session_exc"]
