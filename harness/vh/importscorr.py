"""Correspondence of Model/Imports.v with _find_external.ensure_import: generated module layouts (docstring, __future__ imports,
imports, code, docstring-like strings and imports further down, multi-line and semicolon-joined imports) -> the real function ->
number of top-level statements in front of the inserted `from inline_snapshot import external` line, vs insert_index in Coq."""
from __future__ import annotations

import ast
import tempfile
from pathlib import Path

from .core import g_list

RENDER = {
    "doc": ['"""module docstring"""', "'text'", '"""two\nlines"""'],
    "future": ["from __future__ import annotations", "from __future__ import (\n    annotations,\n)"],
    "import": ["import os", "from collections import (\n    OrderedDict,\n    defaultdict,\n)", "import sys, json", "from inline_snapshot import snapshot", "import os.path as p  # comment"],
    "other": ["x = 1", "def f():\n    import string\n    return 1", "if True:\n    import json", "sys_path = []  # import os", "class A:\n    pass", "s = 'from x import y'"],
    # a top-level import of the wanted name: the only thing that makes the inserted line unnecessary
    "top": ["from inline_snapshot import external", "from inline_snapshot import snapshot, external", "from inline_snapshot import (\n    external,\n    snapshot,\n)"],
    # the same import nested in a function / class / block (an `other` statement): the name is not bound for the rest of the module
    "nested": ["def test_known():\n    from inline_snapshot import external\n    return external", "class T:\n    from inline_snapshot import external",
               "if len('x') == 2:\n    from inline_snapshot import external", "try:\n    from inline_snapshot import external\nexcept ImportError:\n    pass",
               "def g():\n    def h():\n        from inline_snapshot import snapshot, external\n    return h"],
    # imports that look similar and do not bind the name
    "lookalike": ["from inline_snapshot import external as ext", "import inline_snapshot", "from inline_snapshot.extra import raises", "from inline_snapshot import snapshot"],
}
# an import followed by another statement on the SAME line: the line is walked to its end, the new import lands behind the whole line (outside the statement-level
    # model: only the oracle applies - the result must be valid Python and nothing but the inserted line may change)
RENDER["import_semi"] = ["import sys; SYS_PATH_LEN = len(sys.path)", "import os; import json", "from collections import OrderedDict; OD = OrderedDict  # alias",
                         "import sys; sys.path.insert(0, '.')",
                         # ... and the statement behind the semicolon goes on over several lines (F-95): the logical line ends where that statement ends
                         'import os; DOC = """\ndoc\n"""', "import pytest; pytestmark = [\n    pytest.mark.skipif(False, reason='x'),\n]", "import os; X = 1 + \\\n    2",
                         "import os; Y = (\n    os.sep\n)  # end"]
STMT = {"doc": "SDoc", "future": "SFuture", "import": "SImport", "other": "SOther", "top": "SImport", "nested": "SOther", "lookalike": "SImport"}
BIND = {"top": "BTop", "nested": "BNested"}


def gen_case(rng):
    body = []
    if rng.random() < 0.4:
        body.append("doc")
    body += ["future"] * rng.choice([0, 0, 1, 2])
    body += ["import"] * rng.choice([0, 1, 2, 3])
    if rng.random() < 0.15:
        body.append("import_semi")
    if rng.random() < 0.25:
        body.append(rng.choice(["top", "lookalike"]))
    for _ in range(rng.choice([0, 1, 2, 4])):
        body.append(rng.choice(["other", "other", "import", "doc", "nested", "nested", "top", "lookalike"]))
    if not body:
        body = ["other"]
    texts = [rng.choice(RENDER[k]) for k in body]
    return {"body": body, "source": "\n".join(texts) + "\n"}


def run_case(c):
    from inline_snapshot._find_external import ensure_import
    from inline_snapshot._rewrite_code import ChangeRecorder
    d = Path(tempfile.mkdtemp(prefix="imp-", dir="/var/tmp"))
    try:
        f = d / "test_m.py"
        f.write_text(c["source"])
        rec = ChangeRecorder()
        ensure_import(f, {"inline_snapshot": ["external"]}, rec)
        files = list(rec.files())
        if not files:
            return {"index": None, "same": True, "new": c["source"]}
        import inline_snapshot._rewrite_code as _rc
        saved = (_rc.format_code, _rc.enforce_formatting)
        _rc.format_code = lambda text, filename: text
        _rc.enforce_formatting = lambda: False
        try:
            new = files[0].new_code()
        finally:
            _rc.format_code, _rc.enforce_formatting = saved
        tree = ast.parse(new)
        old_body = [ast.dump(n) for n in ast.parse(c["source"]).body]
        new_body = [ast.dump(n) for n in tree.body]
        if len(new_body) == len(old_body):
            return {"index": None, "same": new_body == old_body, "new": new}
        if len(new_body) != len(old_body) + 1:
            return {"error": f"{len(new_body) - len(old_body)} inserted statements", "new": new}
        i = next((k for k in range(len(old_body)) if old_body[k] != new_body[k]), len(old_body))
        n = tree.body[i]
        if not (isinstance(n, ast.ImportFrom) and n.module == "inline_snapshot" and [(a.name, a.asname) for a in n.names] == [("external", None)]):
            return {"error": "the inserted statement is not `from inline_snapshot import external`", "new": new}
        idx = [i]
        # everything else unchanged
        same = new_body[:i] + new_body[i + 1:] == old_body
        compile(new, "test_m.py", "exec")            # placement rules of __future__ imports are checked by the compiler
        return {"index": idx[0], "same": same, "new": new}
    except SyntaxError as e:
        return {"error": f"SyntaxError: {e}"}
    except Exception as e:  # noqa
        return {"error": f"{type(e).__name__}: {e}"}
    finally:
        import shutil
        shutil.rmtree(d, ignore_errors=True)


def g_case(c, o):
    res = "None" if o["index"] is None else f"Some {o['index']}%nat"
    return f"({g_list(c['body'], lambda k: '(' + STMT[k] + ', ' + BIND.get(k, 'BNone') + ')')}, {res})"


def oracle(c, o):
    """C01 / C03 without the model: the line stands in front of all code, behind docstring and __future__ imports, nothing else changes"""
    if not o["same"]:
        return "statements other than the inserted import changed"
    body, i = c["body"], o["index"]
    if "import_semi" in body:
        return None if i is not None or "top" in body else "no import line was inserted"
    if i is None:
        # nothing inserted: fine only if the module itself binds the name at top level
        try:
            ns = {}
            exec(compile(c["source"].replace("from __future__ import annotations", "pass").replace("from __future__ import (\n    annotations,\n)", "pass"), "test_m.py", "exec"), ns)
        except Exception as e:  # noqa
            return f"generated module does not run: {e}"
        if "external" not in ns:
            return "no import line was inserted although the module does not bind the name `external` at top level (generated code using it raises NameError)"
        return None
    if any(k in ("other", "nested") for k in body[:i]):
        return f"the import was inserted behind code (statement kinds {body}, index {i})"
    if body and body[0] == "doc" and i == 0:
        return "the import was inserted in front of the module docstring"
    return None


def check_part(ctx, n, label):
    from .core import coq_eval_shards, pmap
    cases = [gen_case(ctx.rng) for _ in range(n)]
    # deterministic: every same-line layout as the last import of the leading block, alone and behind a docstring
    for t in RENDER["import_semi"]:
        cases.append({"body": ["import_semi", "other"], "source": t + "\nx = 1\n"})
        cases.append({"body": ["doc", "import", "import_semi", "other"], "source": '"""doc"""\nimport sys\n' + t + "\n\n\ndef f():\n    return 1\n"})
    outs = pmap(run_case, cases, chunksize=16)
    terms, idx = [], []
    for i, (c, o) in enumerate(zip(cases, outs)):
        ctx.count(("imports", c["source"]), len(c["body"]) >= 3)
        if "error" in o:
            ctx.report(f"{label} (import insertion): {o['error']} for a module with statement kinds {c['body']}", {"kind": "imports", "source": c["source"], "body": c["body"]})
            continue
        why = oracle(c, o)
        if why:
            ctx.report(f"{label} oracle (import insertion): " + why, {"kind": "imports", "source": c["source"], "body": c["body"], "after": o["new"]})
            continue
        if "import_semi" in c["body"]:
            continue                  # oracle only (see RENDER["import_semi"])
        terms.append(g_case(c, o))
        idx.append(i)
    bad = coq_eval_shards(ctx, "imports", "Model.Imports Corr.ImportsCorr", "case", terms, "mismatches")
    ctx.coverage["traces_validated_against_impl"] += len(terms)
    ctx.coverage["correspondence"]["ensure_import"] = {"cases": len(terms), "mismatches": len(bad)}
    for j in bad[:5]:
        c, o = cases[idx[j]], outs[idx[j]]
        ctx.report(f"Model/Imports.v and ensure_import differ (oracle silent): statement kinds {c['body']}: inserted at index {o['index']}",
                   {"kind": "imports", "source": c["source"], "body": c["body"]}, no_input=True, kind="correspondence")


def replay_case(case):
    c = {"body": case["body"], "source": case["source"]}
    o = run_case(c)
    print(o)
    return "error" not in o and oracle(c, o) is None
