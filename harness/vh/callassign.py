"""Correspondence of Model/CallAssign.v with the code: `assert A(<new fields>) == snapshot(A(<hand-written arguments>))` for a
generated dataclass A (fields with and without defaults, default_factory lists), old calls with positional and keyword
arguments in any order, nested list / tuple arguments, hand-written leaves (`2+3`) and user-controlled `Is(Vk)` parts, run
with a subset of {fix, update}; the arguments of the rewritten call in TEXT ORDER (positional / keyword name, nesting, leaf
values, which leaves keep a hand-written text) vs the model evaluated in Coq.  The independent oracle states C02 / C10 / C11
on the case without the model."""
from __future__ import annotations

import ast

from . import driver
from . import treeassign as ta
from .core import g_Z, g_bool, g_list
from .snapgen import g_flags

POS = [0.25]        # probability that the old call starts with positional arguments
UNM_CHOICES = [[0, 0, 0.25]]   # probability of a user-controlled leaf, drawn per case


BIG = [0.0]         # probability of a wide call: 5-8 fields, all with defaults, 2-3 positional arguments


def gen_case(rng):
    big = rng.random() < BIG[0]
    nf = rng.randint(5, 8) if big else rng.choice([1, 2, 3, 3, 4, 5])
    ndef = nf if big else rng.randint(0, nf)       # the last ndef fields have a default
    fields = []
    for i in range(nf):
        d = None
        if i >= nf - ndef:
            d = ta.gen_val(rng, 2) if rng.random() < (0.15 if big else 0.4) else rng.randint(0, 3)
        fields.append(d)
    ids = []
    saved = ta.UNM[0]
    ta.UNM[0] = rng.choice(UNM_CHOICES[0])
    try:
        npos = rng.randint(2, 3) if big else (rng.randint(0, nf) if rng.random() < POS[0] else 0)
        pos = [ta.gen_tree(rng, 1, ids) for _ in range(npos)]
        rest = list(range(npos, nf))
        given = [i for i in rest if fields[i] is None or rng.random() < 0.6]
        rng.shuffle(given)
        kws = [(i, ta.gen_tree(rng, 1, ids)) for i in given]
        # keywords that spell out the default of their field (update removes them when the field still holds it)
        kws = [(i, ("leaf", fields[i], rng.random() < 0.7)) if isinstance(fields[i], int) and rng.random() < (0.6 if big else 0.35) else (i, t) for i, t in kws]
    finally:
        ta.UNM[0] = saved
    oldv = {}
    for i in range(nf):
        if i < npos:
            oldv[i] = ta.tree_value(pos[i])
        elif i in given:
            oldv[i] = ta.tree_value(dict(kws)[i])
        else:
            oldv[i] = fields[i]
    new = []
    for i in range(nf):
        r = rng.random()
        if r < 0.45:
            v = oldv[i]
        elif r < 0.65 and fields[i] is not None:
            v = fields[i]
        elif r < 0.85:
            v = ta.mutate(rng, oldv[i])
        else:
            v = ta.gen_val(rng, 1)
        new.append(v)
    flags = tuple(c for c in ("fix", "update") if rng.random() < 0.6)
    return {"fields": fields, "pos": pos, "kws": kws, "new": new, "flags": flags, "cls": rng.choice(["dataclass", "dataclass", "namedtuple", "attrs"])}


def _same(a, b):
    return a == b and type(a) is type(b) and (not isinstance(a, (list, tuple)) or all(_same(x, y) for x, y in zip(a, b)))


def is_default(c, i):
    d = c["fields"][i]
    return d is not None and d == c["new"][i]


def render_old(c):
    return "A(" + ", ".join([ta.render_tree(t) for t in c["pos"]] + [f"f{i}={ta.render_tree(t)}" for i, t in c["kws"]]) + ")"


def program(c):
    cls = c.get("cls", "dataclass")
    if cls == "namedtuple":
        names = " ".join(f"f{i}" for i in range(len(c["fields"])))
        defaults = [d for d in c["fields"] if d is not None]
        lines = ["from collections import namedtuple", "from inline_snapshot import snapshot, Is", "", "", f"A = namedtuple('A', '{names}', defaults={defaults!r})"]
    elif cls == "attrs":
        lines = ["import attrs", "from inline_snapshot import snapshot, Is", "", "", "@attrs.define", "class A:"]
        for i, d in enumerate(c["fields"]):
            if d is None:
                lines.append(f"    f{i}: object")
            elif isinstance(d, list):
                lines.append(f"    f{i}: object = attrs.field(factory=lambda: {d!r})")
            else:
                lines.append(f"    f{i}: object = {d!r}")
    else:
        lines = ["from dataclasses import dataclass, field", "from inline_snapshot import snapshot, Is", "", "", "@dataclass", "class A:"]
        for i, d in enumerate(c["fields"]):
            if d is None:
                lines.append(f"    f{i}: object")
            elif isinstance(d, list):
                lines.append(f"    f{i}: object = field(default_factory=lambda: {d!r})")
            else:
                lines.append(f"    f{i}: object = {d!r}")
    us = [u for t in c["pos"] for u in ta.unms(t)] + [u for _, t in c["kws"] for u in ta.unms(t)]
    lines += ["", ""] + [f"V{i} = {v}" for i, v in us]
    new = "A(" + ", ".join(f"f{i}={v!r}" for i, v in enumerate(c["new"])) + ")"
    lines += ["", "", "def test_a():", f"    assert {new} == snapshot({render_old(c)})", ""]
    return "\n".join(lines), us


def run_case(c):
    src, us = program(c)
    r = driver.run_inproc({"test_a.py": src}, c["flags"], block_black=True)
    out = {"session_exc": r["session_exc"], "source": src, "after": r["files"]["test_a.py"].decode(), "reported": list(r["reported"]),
           "tests": [t[2] for t in r["tests"]]}
    try:
        tree = ast.parse(out["after"])
        f = [n for n in tree.body if isinstance(n, ast.FunctionDef)][0]
        call = [n for n in ast.walk(f) if isinstance(n, ast.Call) and isinstance(n.func, ast.Name) and n.func.id == "snapshot"][0]
        arg = call.args[0]
        out["arg"] = ast.get_source_segment(out["after"], arg)
        if not (isinstance(arg, ast.Call) and isinstance(arg.func, ast.Name) and arg.func.id == "A"):
            raise ValueError("the argument is no longer a call of A")
        obs = []
        for a in arg.args:
            obs.append((None, ta.read_back(ast.get_source_segment(out["after"], a))))
        for kw in arg.keywords:
            obs.append((int(kw.arg[1:]), ta.read_back(ast.get_source_segment(out["after"], kw.value))))
        # text order
        order = sorted(range(len(obs)), key=lambda j: ((list(arg.args) + [k.value for k in arg.keywords])[j].lineno, (list(arg.args) + [k.value for k in arg.keywords])[j].col_offset))
        out["observed"] = [obs[j] for j in order]
        ns = {}
        exec(compile(ast.Module(body=[n for n in tree.body if not isinstance(n, ast.FunctionDef)], type_ignores=[]), "<m>", "exec"), ns)
        ns["Is"] = lambda x: x
        obj = eval(out["arg"], ns)
        out["value"] = [getattr(obj, f"f{i}") for i in range(len(c["fields"]))]
    except Exception as e:  # noqa
        out["error"] = f"{type(e).__name__}: {e}"
    return out


def g_case(c, o):
    fs = g_list(list(enumerate(c["new"])), lambda t: f"{{| fd_name := {g_Z(t[0])}; fd_val := {ta.g_val(t[1])}; fd_default := {g_bool(is_default(c, t[0]))} |}}")
    pos = g_list(c["pos"], ta.g_tree)
    kws = g_list(c["kws"], lambda t: f"({g_Z(t[0])}, {ta.g_tree(t[1])})")
    obs = g_list(o["observed"], lambda t: f"({'None' if t[0] is None else 'Some ' + g_Z(t[0])}, {ta.g_otree(t[1])})")
    return f"({g_flags(c['flags'])}, {pos}, {kws}, {fs}, {obs})"


def has_unm(c):
    return any(ta.unms(t) for t in c["pos"]) or any(ta.unms(t) for _, t in c["kws"])


def oracle(c, o):
    """C02 / C10 / C11 on this case, stated without the model"""
    us = [i for t in c["pos"] for i, _ in ta.unms(t)] + [i for _, t in c["kws"] for i, _ in ta.unms(t)]
    got = [u[1] for _, t in o["observed"] for u in ta._unm_list(t)]
    it = iter(us)
    if not all(g in it for g in got):
        return f"C10: user-controlled parts after the run {got} are not a subsequence of the ones before {us}: {render_old(c)} -> {o['arg']}"
    if "fix" not in c["flags"] and got != us:
        return f"C10: fix is not approved but user-controlled parts disappeared: {us} -> {got}"
    if us:
        return None
    names = [k for k, _ in o["observed"] if k is not None]
    if len(set(names)) != len(names):
        return f"a keyword is repeated: {o['arg']}"
    if "fix" in c["flags"]:
        if not all(_same(a, b) for a, b in zip(o["value"], c["new"])):
            return f"C02: after fix the snapshot holds {o['value']!r}, observed was {c['new']!r}: {render_old(c)} -> {o['arg']}"
    if "update" not in c["flags"]:
        # C11: an equal keyword argument under a surviving key keeps its text
        texts = {k: t for k, t in o["observed"] if k is not None}
        for i, t in c["kws"]:
            if _same(ta.tree_value(t), c["new"][i]):
                if i not in texts:
                    return f"C11: keyword f{i} is unchanged but was removed although update is not approved: {render_old(c)} -> {o['arg']}"
                if ta.g_otree(texts[i]) != ta.g_otree(_shape(t)):
                    return f"C11: keyword f{i}={ta.render_tree(t)} is unchanged (same name, equal value) but its text was rewritten: {render_old(c)} -> {o['arg']}"
    return None


def _shape(t):
    if t[0] == "leaf":
        return t
    if t[0] == "unm":
        return ("unm", t[1])
    return (t[0], [_shape(x) for x in t[1]])


def old_values(c):
    """the fields of the object the hand-written call evaluates to"""
    vals = {}
    for i, d in enumerate(c["fields"]):
        if i < len(c["pos"]):
            vals[i] = ta.tree_value(c["pos"][i])
        elif i in dict(c["kws"]):
            vals[i] = ta.tree_value(dict(c["kws"])[i])
        else:
            vals[i] = d
    return [vals[i] for i in range(len(c["fields"]))]


def positional_oracle(c, o):
    """the part of C05 / C11 that positional arguments break (finding F-41); only called for cases without user-controlled parts"""
    holds = all(_same(a, b) for a, b in zip(old_values(c), c["new"]))
    if holds and "fix" in o["reported"]:
        return f"C05: the comparison holds ({render_old(c)} == observed object) but category fix is reported (pending: {o['reported']}); with fix approved: -> {o['arg']}"
    if not holds and "fix" not in o["reported"]:
        return f"C05: the comparison fails but fix is not reported (pending: {o['reported']}): {render_old(c)} observed {c['new']}"
    if "fix" in c["flags"] and "update" not in c["flags"]:
        for i, t in enumerate(c["pos"]):
            if _same(ta.tree_value(t), c["new"][i]):
                return f"C11: positional argument {ta.render_tree(t)} (field f{i}) is unchanged but was rewritten by fix: {render_old(c)} -> {o['arg']}"
    return None


def transparency_oracle(c, o):
    """C06 on a constructor call, no flags: the comparison inside the test returns what the plain objects give"""
    if has_unm(c):
        return None
    holds = all(_same(a, b) for a, b in zip(old_values(c), c["new"]))
    got = o["tests"][0] if o["tests"] else "no test ran"
    if holds and got != "ok":
        return f"the comparison holds on the plain values ({render_old(c)} == observed object) but the test ended with: {got}"
    if not holds and not got.startswith("AssertionError"):
        return f"the comparison fails on the plain values but the test ended with: {got}"
    if not holds and "assert" not in o["source"]:
        return None
    return None


def check_part(ctx, n, label, positional=True, noflags=False):
    """generate n cases, run them, apply the oracles, compare the rest with Model/CallAssign.v"""
    from .core import coq_eval_shards, pmap
    cases = [gen_case(ctx.rng) for _ in range(n)]
    if noflags:
        for c in cases:
            c["flags"] = ()
    outs = pmap(run_case, cases, chunksize=8)
    terms, idx = [], []
    npos = nunm = 0
    for i, (c, o) in enumerate(zip(cases, outs)):
        ctx.count(("call", repr(c)), old_values(c) != c["new"] or bool(c["pos"]))
        if o["session_exc"] or "error" in o:
            ctx.report(f"{label} (constructor call): run failed: {o['session_exc'] or o.get('error')}: {render_old(c)} observed {c['new']} flags {c['flags']}",
                       {"kind": "call", "case": c, "repr": repr(c)})
            continue
        npos += bool(c["pos"])
        nunm += has_unm(c)
        why = oracle(c, o) or (transparency_oracle(c, o) if noflags else None)
        if why:
            ctx.report(f"{label} oracle (constructor call): " + why, {"kind": "call", "case": c, "repr": repr(c)})
            continue
        if positional and not has_unm(c):
            why = positional_oracle(c, o)
            if why:
                # F-41: identified by "the hand-written call has positional arguments"; the same failure on a call without them is reported
                ctx.report(f"{label} oracle (constructor call): " + why, {"kind": "call", "case": c, "repr": repr(c)}, tag="F-41" if c["pos"] else None)
        terms.append(g_case(c, o))
        idx.append(i)
    bad = coq_eval_shards(ctx, "callassign", "Model.SnapOps Model.TreeAssign Model.CallAssign Corr.TreeAssignCorr Corr.CallAssignCorr", "case", terms, "mismatches")
    ctx.coverage["traces_validated_against_impl"] += len(terms)
    ctx.coverage["correspondence"]["call_assign"] = {"cases": len(terms), "mismatches": len(bad), "with_positional_arguments": npos, "with_user_controlled_parts": nunm}
    for j in bad[:10]:
        c, o = cases[idx[j]], outs[idx[j]]
        ctx.report(f"Model/CallAssign.v and implementation differ (oracle silent): {render_old(c)} defaults {c['fields']} observed {c['new']} flags {c['flags']} -> {o['arg']}",
                   {"kind": "call", "case": c, "repr": repr(c)}, no_input=True, kind="correspondence")


def replay_case(case):
    c = eval(case["repr"])
    o = run_case(c)
    print(render_old(c), "defaults", c["fields"], "observed", c["new"], "flags", c["flags"], "->", o.get("arg"), o.get("error"), o.get("session_exc"))
    if o["session_exc"] or "error" in o:
        return False
    why = oracle(c, o) or (None if has_unm(c) else positional_oracle(c, o))
    print("oracle:", why)
    return why is None


def _arg_dump(src):
    tree = ast.parse(src)
    f = [n for n in tree.body if isinstance(n, ast.FunctionDef)][0]
    call = [n for n in ast.walk(f) if isinstance(n, ast.Call) and isinstance(n.func, ast.Name) and n.func.id == "snapshot"][0]
    return ast.dump(call.args[0]), ast.get_source_segment(src, call.args[0])


def run_orders(c):
    """C09 on a constructor call: fix and update approved together vs one after the other (both orders)"""
    src, _ = program(c)
    out = {"source": src, "routes": {}}
    for name, seq in (("fix,update", [("fix", "update")]), ("update;fix", [("update",), ("fix",)]), ("fix;update", [("fix",), ("update",)])):
        cur = src
        try:
            for flags in seq:
                r = driver.run_inproc({"test_a.py": cur}, flags, block_black=True)
                if r["session_exc"]:
                    raise RuntimeError(r["session_exc"])
                cur = r["files"]["test_a.py"].decode()
            out["routes"][name] = _arg_dump(cur)
        except Exception as e:  # noqa
            out["routes"][name] = ("error", f"{type(e).__name__}: {e}")
    return out


def orders_oracle(c, o):
    ref = o["routes"]["fix,update"]
    for name, got in o["routes"].items():
        if got[0] == "error":
            return f"route {name} failed: {got[1]}"
        if got[0] != ref[0]:
            return f"{render_old(c)} observed {c['new']}: approving fix and update together gives {ref[1]}, the route {name} gives {got[1]}"
    return None


def check_orders(ctx, n, label="C09"):
    from .core import pmap
    saved = POS[0], UNM_CHOICES[0], BIG[0]
    POS[0], UNM_CHOICES[0], BIG[0] = 0.6, [0], 0.6
    try:
        cases = [gen_case(ctx.rng) for _ in range(n)]
    finally:
        POS[0], UNM_CHOICES[0], BIG[0] = saved
    outs = pmap(run_orders, cases, chunksize=4)
    n2 = 0
    for c, o in zip(cases, outs):
        ctx.count(("call-orders", repr(c)), True)
        n2 += len(c["pos"]) >= 2
        why = orders_oracle(c, o)
        if why:
            ctx.report(f"{label} oracle (constructor call): " + why, {"kind": "call-orders", "case": c, "repr": repr(c)})
    ctx.coverage["oracle"]["constructor_call_routes"] = {"cases": n, "with_two_or_more_positional_arguments": n2}


def replay_orders(case):
    c = eval(case["repr"])
    o = run_orders(c)
    for k, v in o["routes"].items():
        print(k, "->", v[1])
    why = orders_oracle(c, o)
    print("oracle:", why)
    return why is None
