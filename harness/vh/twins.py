"""Twin modules: the same test module stored under several names (two in the project directory, one in a sub-directory) and run in ONE
real pytest session must end up byte for byte as it does when it is the only file of its session - what is computed for one
file never leaks into another one, whether call sites share line / column numbers, code objects that compare equal, or
changes with equal source ranges.  An oracle on the real code shared by several checks (C01, C02, C10, C14, C18); independent of
the models."""
from __future__ import annotations

import shutil

from . import driver

NAMES = ("test_t1.py", "test_t2.py", "pkg/test_t3.py")


def _session(files, flags):
    d = driver.scratch_dir("twins-")
    try:
        driver.write_project(d, dict(files, **{"pyproject.toml": ""}))
        r = driver.run_pytest(d, [f"--inline-snapshot={','.join(flags)}"] if flags else [])
        out = r["stdout"] + r["stderr"]
        return {"rc": r["rc"], "files": {n: (d / n).read_text() for n in files}, "internal": "INTERNALERROR" in out, "tail": out[-1500:],
                "infra": r.get("infra_error")}
    finally:
        shutil.rmtree(d, ignore_errors=True)


def run_one(item):
    src, flags = item
    multi = _session({n: src for n in NAMES}, flags)
    single = _session({NAMES[0]: src}, flags)
    return {"multi": multi, "single": single}


def judge(src, flags, o):
    m, s = o["multi"], o["single"]
    if m.get("infra") or s.get("infra"):
        return None
    if s["internal"] or s["rc"] not in (0, 1):
        return None              # the module itself is outside this oracle (judged by the check's own clauses)
    if m["internal"] or m["rc"] not in (0, 1):
        return f"the module alone: exit status {s['rc']}; stored under three names in one session ({','.join(flags)}): exit status {m['rc']}: {m['tail'][-400:]}"
    want = s["files"][NAMES[0]]
    for n in NAMES:
        if m["files"][n] != want:
            return (f"a module stored under three names and run in one session with {','.join(flags) or 'no flags'} ends up differently in {n} than when it is the only file of "
                    f"its session: {_first_diff(want, m['files'][n])}")
    return None


def _first_diff(a, b):
    la, lb = a.splitlines(), b.splitlines()
    for i, (x, y) in enumerate(zip(la, lb)):
        if x != y:
            return f"line {i + 1}: alone `{x.strip()[:160]}`, together `{y.strip()[:160]}`"
    return f"{len(la)} lines alone, {len(lb)} lines together"


def check(ctx, label, sources, flag_sets=(("create", "fix", "trim", "update"), ("fix",))):
    from .core import tmap
    items = [(s, f) for s in sources for f in flag_sets]
    for (src, flags), o in zip(items, tmap(run_one, items)):
        ctx.count(("twins", src, flags), True)
        why = judge(src, flags, o)
        if why:
            ctx.report(f"{label} oracle (twin modules): " + why, {"kind": "twins", "source": src, "flags": list(flags)})
    ctx.coverage["oracle"]["twin_module_sessions"] = len(items)


def replay(case):
    o = run_one((case["source"], tuple(case["flags"])))
    why = judge(case["source"], tuple(case["flags"]), o)
    print("oracle:", why)
    return why is None
